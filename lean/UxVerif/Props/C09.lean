/-
  C09 — Subsets and cross-sections are faithful, fully functional restrictions.

  Theorems about the model `Model/Slice.lean` (transcription of `uxarray/grid/slice.py` as
  repaired by fixes/C09-*.patch, of the selectors of `uxarray/subset/grid_accessor.py`, of the
  latitude scan of `uxarray/grid/intersections.py` and of `UxDataArray._slice_from_grid`), for
  source grids, index lists, data arrays and request histories of ANY size.

  * `slice_faces_exact`      — recorded indices = request; every subset face has the corners of its
                               source face (same order, same padding) under the recorded node map;
                               the subset's nodes / edges are exactly those of the selected faces,
                               each once, ascending; edge end nodes and face-edge rows are the source's.
  * `slice_std`              — the subset's face table is in standard form, so every theorem of C02
                               applies to it (`fresh_build_meets_spec`).
  * `slice_functional`       — the subset's OWN travelling edge tables meet C02's `Edges.Spec`.
  * `slice_meets_spec`       — all of the above = the decidable `Slice.Spec` the driver evaluates.
  * `touching_nodes/edges`   — node / edge selections are inclusive (`Touching`), and with C03's
                               spec: `f` selected ↔ some selected node is a corner of `f`
                               (`nodes_inclusive`, `edges_inclusive`); `slice_nodes_meets_spec`,
                               `slice_edges_meets_spec`: the whole specification for such selections.
  * `slice_eq_fresh`         — slicing commutes with edge construction: for a source whose edges uxarray
                               derived, the travelling tables equal `Edges.build` of the subset's faces.
  * `slice_history_independent` (`request_coh`, `slice_coh`, `view_coh`)
                             — whatever was materialised on the source before (any request history),
                               the subset answers every request, in any order, with the same tables.
  * `built_grid_end_to_end`  — all of it for every standard-form face table, no other hypothesis.
  * `efd_history_independent` (`request_efd`, `slice_efd`), `asis_efd_stale`
                             — `edge_face_distances` is NOT a per-edge invariant of a restriction (it looks at
                               both faces of the edge): masked on travel (fixes/C09-3) the subset reports what it
                               derives itself, for every history — under the decidable hypothesis `EFDTransport`;
                               the as-is slicer is history dependent.
  * `slice_backing_irrelevant`, `efd_backing_irrelevant`, `coh_backing`
                             — `Grid.chunk` (numpy → dask backing) is a history operation that changes no value:
                               every history theorem quantifies over histories containing it, and a source
                               differing only in its backing gives the same subset.
  * `slice_keeps_supplied_edges` (`coh_supplied_en`, `request_en_kept`, `runHist_en_kept`)
                             — a source-supplied `edge_node_connectivity` (rows in any order, each row in any
                               orientation) is never replaced: after any history and after the read of
                               `face_edge_connectivity` every slice starts with it is the same list of rows, the
                               faces' edges are looked up in it (`lookupFE`), and the subset's recorded edge
                               indices refer to it.  None of the slice theorems assumes (lo, hi) rows: `Pre` is
                               C02's `Edges.Spec`, which compares unordered pairs (examples with `enSup`).
  * `efd_transport`, `efdTransport_of_pre`, `efd_history_independent_of_pre`
                             — `EFDTransport` PROVED from C03's `EdgeFaceOK` of the source's and the subset's
                               edge-face tables + "the two faces of an edge are distinct" (`mem_faceEdgesOf_sub`:
                               edge k of the subset lies in subset face i iff its source edge lies in face idx[i]).
  * `asis_*`                 — what /repo did before the repair: proved counterexamples.
  * `data_aligned`, `data_aligned_rank`
                             — sliced data are the source's at the recorded indices, any rank.
  * `crosses_iff`, `mask_order_irrelevant`, `crosssec_iff`
                             — the latitude scan: strictly opposite sides, any iteration order.
  * `facesAt_meets_crossExact`, `on_parallel_not_crossing`
                             — the exact clause `CrossExact` (decided by the driver on the very doubles the
                               implementation compares): an end node ON the parallel is on neither side.
  * `crossExact_latitude_domain`
                             — for any coordinate change that preserves and reflects the strict order (the exact
                               sine on [-90°, 90°]) `CrossExact` on the node LATITUDES and the queried latitude is
                               `CrossExact` on their images: the driver also decides the clause on the source's own
                               node_lat doubles, so a derived node_z that is off by an ulp cannot hide a tie.
  * `box_iff`, `circle_iff`, `knn_spec` — region selectors as predicates on reference points.
-/
import UxVerif.Lemmas.Slice
import UxVerif.Props.C02
import UxVerif.Props.C03
import Mathlib.Algebra.Order.Field.Basic

namespace UxVerif.C09
open UxVerif UxVerif.Slice UxVerif.Edges

/-! ## 1. the restriction is exact -/

section Exact
variable {n w : Nat} {s : Src} {idx : List Nat}

theorem row_in_nodeSel {f : Nat} (hf : f ∈ idx) :
    ∀ x ∈ rowAt s.t f, x = FILL ∨ x ∈ nodeSel s idx := by
  intro x hx
  by_cases h : x = FILL
  · left; exact h
  · right; exact mem_sel.mpr ⟨mem_gather.mpr ⟨f, hf, hx⟩, h⟩

theorem row_in_edgeSel {f : Nat} (hf : f ∈ idx) :
    ∀ x ∈ rowAt s.FE f, x = FILL ∨ x ∈ edgeSel s idx := by
  intro x hx
  by_cases h : x = FILL
  · left; exact h
  · right; exact mem_sel.mpr ⟨mem_gather.mpr ⟨f, hf, hx⟩, h⟩

theorem faces_recorded (s : Src) (idx : List Nat) : FacesRecorded idx (sliceFaces s idx).obs := rfl

/-- **corner positions**: read through the recorded node indices, face `i` of the subset IS
    source face `idx[i]` — same corners, same order, same padding.  No hypothesis on the source. -/
theorem corners_exact (s : Src) (idx : List Nat) : CornersExact s idx (sliceFaces s idx).obs := by
  refine ⟨by simp [SubGrid.obs, sliceFaces], ?_⟩
  intro i hi
  have hrow : rowAt (sliceFaces s idx).obs.t i = (rowAt s.t idx[i]).map (remap (nodeSel s idx)) :=
    rowAt_map_idx idx _ i hi
  rw [hrow, getD_lt 0 hi]
  exact map_back_remap (row_in_nodeSel (List.getElem_mem hi))

/-- **nodes**: exactly the corners of the selected faces, each once -/
theorem nodes_exact (s : Src) (idx : List Nat) : NodesExact s idx (sliceFaces s idx).obs := by
  refine ⟨nodup_sel _, ?_, ?_⟩
  · intro v hv
    have := mem_sel.mp hv
    exact ⟨this.2, this.1⟩
  · intro v hv hne
    exact mem_sel.mpr ⟨hv, hne⟩

/-- the recorded node and edge indices are ascending (`np.unique`) -/
theorem recorded_ascending (s : Src) (idx : List Nat) :
    (sliceFaces s idx).nodeIdx.Pairwise (· < ·) ∧ (sliceFaces s idx).edgeIdx.Pairwise (· < ·) :=
  ⟨sorted_sel _, sorted_sel _⟩

/-- **face-edge rows**: read through the recorded edge indices, row `i` is the source's row -/
theorem faceEdges_restrict (s : Src) (idx : List Nat) :
    FaceEdgesRestrict s idx (sliceFaces s idx).obs := by
  refine ⟨by simp [SubGrid.obs, sliceFaces], ?_⟩
  intro i hi
  have hrow : rowAt (sliceFaces s idx).obs.FE i = (rowAt s.FE idx[i]).map (remap (edgeSel s idx)) :=
    rowAt_map_idx idx _ i hi
  rw [hrow, getD_lt 0 hi]
  exact map_back_remap (row_in_edgeSel (List.getElem_mem hi))

/-- a selected edge sits in some slot `j` of a selected face, where the source's (correct) tables
    say it joins corners `j` and `j+1` -/
theorem edge_slot (h : Pre n w s idx) {e : Int} (he : e ∈ edgeSel s idx) :
    ∃ f ∈ idx, ∃ j, j < w ∧ j < (faceOf (rowAt s.t f)).length ∧ entry (rowAt s.FE f) j = e ∧
      ∃ e0, getI? s.EN e = some e0 ∧ (rowSegs (rowAt s.t f))[j]? = some (sortPair e0) := by
  obtain ⟨_, hspec, hidx, _⟩ := h
  obtain ⟨hg, hne⟩ := mem_sel.mp he
  obtain ⟨f, hf, hx⟩ := mem_gather.mp hg
  have hft := hidx f hf
  obtain ⟨_, hrow⟩ := hspec.2.2.2.1
  dsimp only at hrow
  obtain ⟨hlen, hslots⟩ := hrow f hft
  obtain ⟨j, hj, hje⟩ := List.getElem_of_mem hx
  have hent : entry (rowAt s.FE f) j = e := by
    unfold entry; rw [getD_lt FILL hj]; exact hje
  have hjw : j < w := by omega
  have := hslots j hjw
  split at this
  · rename_i hjk
    obtain ⟨sg, hsg, e0, he0, hsort⟩ := this
    refine ⟨f, hf, j, hjw, hjk, hent, e0, ?_, ?_⟩
    · rw [← hent]; exact he0
    · rw [hsort]; exact hsg
  · rw [hent] at this; exact absurd this hne

/-- the end nodes of a selected edge are corners of a selected face, hence selected nodes -/
theorem edge_nodes_selected (h : Pre n w s idx) {e : Int} (he : e ∈ edgeSel s idx) :
    (edgeAt s.EN e).1 ∈ nodeSel s idx ∧ (edgeAt s.EN e).2 ∈ nodeSel s idx := by
  obtain ⟨f, hf, j, _, _, _, e0, he0, hseg⟩ := edge_slot h he
  have hE : edgeAt s.EN e = e0 := by unfold edgeAt; rw [he0]; rfl
  rw [hE]
  have hmem : sortPair e0 ∈ rowSegs (rowAt s.t f) := List.mem_of_getElem? hseg
  have hc := mem_rowSegs_comps _ _ hmem
  have key : ∀ x, x ∈ faceOf (rowAt s.t f) → x ∈ nodeSel s idx := by
    intro x hx
    rcases row_in_nodeSel (s := s) hf x (mem_faceOf_mem _ x hx) with h1 | h1
    · exact absurd h1 (faceOf_ne_fill _ x hx)
    · exact h1
  exact sortPair_comps e0 (· ∈ nodeSel s idx) ⟨key _ hc.1, key _ hc.2⟩

/-- **edges**: exactly the edges of the selected faces, each once, with the source's end nodes -/
theorem edges_restrict (h : Pre n w s idx) : EdgesRestrict s idx (sliceFaces s idx).obs := by
  refine ⟨nodup_sel _, ?_, ?_, by simp [SubGrid.obs, sliceFaces], ?_⟩
  · intro e he
    have := mem_sel.mp he
    exact ⟨this.2, this.1⟩
  · intro e he hne
    exact mem_sel.mpr ⟨he, hne⟩
  · intro k hk
    have hk' : k < (edgeSel s idx).length := hk
    have hEN : (sliceFaces s idx).obs.EN.getD k (FILL, FILL)
        = mapPair (remap (nodeSel s idx)) (edgeAt s.EN (edgeSel s idx)[k]) := by
      simp [SubGrid.obs, sliceFaces, List.getD, List.getElem?_map, List.getElem?_eq_getElem hk']
    have hidxk : (sliceFaces s idx).obs.edgeIdx.getD k FILL = (edgeSel s idx)[k] := getD_lt FILL hk'
    rw [hEN, hidxk]
    obtain ⟨h1, h2⟩ := edge_nodes_selected h (List.getElem_mem hk')
    congr 1
    change (back (nodeSel s idx) (remap (nodeSel s idx) (edgeAt s.EN (edgeSel s idx)[k]).1),
      back (nodeSel s idx) (remap (nodeSel s idx) (edgeAt s.EN (edgeSel s idx)[k]).2)) = _
    rw [back_remap (Or.inr h1), back_remap (Or.inr h2)]

/-- **C09, restriction clauses.** -/
theorem slice_faces_exact (h : Pre n w s idx) : Restrict s idx (sliceFaces s idx).obs :=
  ⟨faces_recorded s idx, corners_exact s idx, nodes_exact s idx, edges_restrict h,
   faceEdges_restrict s idx⟩

end Exact

/-! ## 2. the subset is a functional grid -/

section Functional
variable {n w : Nat} {s : Src} {idx : List Nat}

theorem remapN_fill (s : Src) (idx : List Nat) :
    ∀ x, remap (nodeSel s idx) x = FILL ↔ x = FILL := fun _ => remap_eq_fill_iff

theorem mem_sub_t {r' : List Int} (hr : r' ∈ (sliceFaces s idx).t) :
    ∃ f ∈ idx, r' = (rowAt s.t f).map (remap (nodeSel s idx)) := by
  rcases List.mem_map.mp hr with ⟨f, hf, rfl⟩
  exact ⟨f, hf, rfl⟩

/-- the subset's face table is in standard form over its own `nodeIdx.length` nodes -/
theorem slice_std (h : Pre n w s idx) :
    StdForm (sliceFaces s idx).nodeIdx.length w (sliceFaces s idx).t := by
  intro r' hr'
  obtain ⟨f, hf, rfl⟩ := mem_sub_t hr'
  have hstd : StdRow n w (rowAt s.t f) := h.1 _ (rowAt_mem (h.2.2.1 f hf))
  obtain ⟨h1, h2, _, h4⟩ := hstd
  have hg := remapN_fill s idx
  refine ⟨by simpa using h1, ?_, ?_, ?_⟩
  · rw [faceOf_map hg]; simpa using h2
  · rw [faceOf_map hg]
    intro x hx
    rcases List.mem_map.mp hx with ⟨y, hy, rfl⟩
    have hne := faceOf_ne_fill _ y hy
    have hmem : y ∈ nodeSel s idx := by
      rcases row_in_nodeSel (s := s) hf y (mem_faceOf_mem _ y hy) with h' | h'
      · exact absurd h' hne
      · exact h'
    exact remap_bound hmem hne
  · rw [faceOf_map hg, List.length_map, ← List.map_drop]
    intro x hx
    rcases List.mem_map.mp hx with ⟨y, hy, rfl⟩
    rw [h4 y hy, remap_fill]

/-- segment `j` of a renumbered row is the renumbered segment `j` -/
theorem rowSegs_remap_get (s : Src) (idx : List Nat) (r : List Int) (j : Nat) (p : Int × Int)
    (hp : (rowSegs r)[j]? = some (sortPair p)) :
    (rowSegs (r.map (remap (nodeSel s idx))))[j]? = some (sortPair (mapPair (remap (nodeSel s idx)) p)) := by
  rw [rowSegs_map (remapN_fill s idx)]
  unfold rowSegs at hp
  rw [List.getElem?_map] at hp ⊢
  cases hq : (segs (faceOf r))[j]? with
  | none => rw [hq] at hp; cases hp
  | some q =>
    rw [hq] at hp
    simp only [Option.map_some, Option.some.injEq] at hp ⊢
    exact sortPair_mapPair _ hp

theorem sub_EN_get (s : Src) (idx : List Nat) {e : Int} (he : e ∈ edgeSel s idx) :
    getI? (sliceFaces s idx).EN (remap (edgeSel s idx) e)
      = some (mapPair (remap (nodeSel s idx)) (edgeAt s.EN e)) := by
  have hne := (mem_sel.mp he).2
  have hi := idxOf_lt he
  rw [remap_of_ne hne, getI?_ofNat]
  simp only [sliceFaces, List.getElem?_map, List.getElem?_eq_getElem hi, Option.map_some]
  rw [List.getElem_idxOf hi]

/-- **`face_edge[f, j]` of the subset joins corners `j`, `j+1` of subset face `f`** -/
theorem sub_faceEdges_ok (h : Pre n w s idx) :
    FaceEdgesOK (sliceFaces s idx).t w (sliceFaces s idx).EN (sliceFaces s idx).FE := by
  refine ⟨by simp [sliceFaces], ?_⟩
  intro i hi
  have hi' : i < idx.length := by simpa [sliceFaces] using hi
  have hf : idx[i] ∈ idx := List.getElem_mem hi'
  have hft := h.2.2.1 _ hf
  rw [show rowAt (sliceFaces s idx).t i = (rowAt s.t idx[i]).map (remap (nodeSel s idx)) from
        rowAt_map_idx idx _ i hi',
      show rowAt (sliceFaces s idx).FE i = (rowAt s.FE idx[i]).map (remap (edgeSel s idx)) from
        rowAt_map_idx idx _ i hi']
  have hrowspec := h.2.1.2.2.2.1.2
  dsimp only at hrowspec
  obtain ⟨hlen, hslots⟩ := hrowspec idx[i] hft
  refine ⟨by simpa using hlen, ?_⟩
  intro j hj
  have hjl : j < (rowAt s.FE idx[i]).length := by omega
  have hent : entry ((rowAt s.FE idx[i]).map (remap (edgeSel s idx))) j
      = remap (edgeSel s idx) (entry (rowAt s.FE idx[i]) j) := by
    simp [entry, List.getD, List.getElem?_map, List.getElem?_eq_getElem hjl]
  rw [hent, faceOf_map (remapN_fill s idx), List.length_map]
  have := hslots j hj
  split at this
  · rename_i hjk
    rw [if_pos hjk]
    obtain ⟨sg, hsg, e0, he0, hsort⟩ := this
    have hge := getI?_some he0
    have hne : entry (rowAt s.FE idx[i]) j ≠ FILL := by
      have := FILL_neg; omega
    have hmemrow : entry (rowAt s.FE idx[i]) j ∈ rowAt s.FE idx[i] := by
      unfold entry; rw [getD_lt FILL hjl]; exact List.getElem_mem hjl
    have hsel : entry (rowAt s.FE idx[i]) j ∈ edgeSel s idx :=
      mem_sel.mpr ⟨mem_gather.mpr ⟨_, hf, hmemrow⟩, hne⟩
    have hE : edgeAt s.EN (entry (rowAt s.FE idx[i]) j) = e0 := by
      unfold edgeAt; rw [he0]; rfl
    refine ⟨sortPair (mapPair (remap (nodeSel s idx)) e0), ?_, _, sub_EN_get s idx hsel, ?_⟩
    · exact rowSegs_remap_get s idx _ j e0 (by rw [hsort]; exact hsg)
    · rw [hE]
  · rename_i hjk
    rw [if_neg hjk, this, remap_fill]

/-- **every edge of the subset is a boundary segment of a subset face, without padding** -/
theorem sub_edges_sound (h : Pre n w s idx) :
    EdgesSound (sliceFaces s idx).t (sliceFaces s idx).EN := by
  intro e' he'
  rcases List.mem_map.mp he' with ⟨e, he, rfl⟩
  obtain ⟨f, hf, j, _, _, _, e0, he0, hseg⟩ := edge_slot h he
  have hE : edgeAt s.EN e = e0 := by unfold edgeAt; rw [he0]; rfl
  obtain ⟨h1, h2⟩ := edge_nodes_selected h he
  have hn1 := (mem_sel.mp h1).2
  have hn2 := (mem_sel.mp h2).2
  refine ⟨remap_ne_fill hn1, remap_ne_fill hn2, (rowAt s.t f).map (remap (nodeSel s idx)),
    List.mem_map.mpr ⟨f, hf, rfl⟩, ?_⟩
  rw [hE]
  exact List.mem_of_getElem? (rowSegs_remap_get s idx _ j e0 hseg)

/-- **every boundary segment of every subset face is an edge of the subset** -/
theorem sub_edges_complete (h : Pre n w s idx) :
    EdgesComplete (sliceFaces s idx).t (sliceFaces s idx).EN := by
  intro r' hr' sg' hsg'
  obtain ⟨f, hf, rfl⟩ := mem_sub_t hr'
  have hft := h.2.2.1 f hf
  obtain ⟨j, hj, hje⟩ := List.getElem_of_mem hsg'
  have hjk : j < (faceOf (rowAt s.t f)).length := by
    rw [length_rowSegs, faceOf_map (remapN_fill s idx), List.length_map] at hj; exact hj
  have hstd : StdRow n w (rowAt s.t f) := h.1 _ (rowAt_mem hft)
  have hjw : j < w := by
    have := hstd.1
    have h2 : (faceOf (rowAt s.t f)).length ≤ (rowAt s.t f).length := length_takeWhile_le' _ _
    omega
  have hrowspec := h.2.1.2.2.2.1.2
  dsimp only at hrowspec
  obtain ⟨hlen, hslots⟩ := hrowspec f hft
  have := hslots j hjw
  rw [if_pos hjk] at this
  obtain ⟨sg, hsg, e0, he0, hsort⟩ := this
  have hjl : j < (rowAt s.FE f).length := by omega
  have hge := getI?_some he0
  have hne : entry (rowAt s.FE f) j ≠ FILL := by
    have := FILL_neg; omega
  have hmemrow : entry (rowAt s.FE f) j ∈ rowAt s.FE f := by
    unfold entry; rw [getD_lt FILL hjl]; exact List.getElem_mem hjl
  have hsel : entry (rowAt s.FE f) j ∈ edgeSel s idx :=
    mem_sel.mpr ⟨mem_gather.mpr ⟨_, hf, hmemrow⟩, hne⟩
  have hE : edgeAt s.EN (entry (rowAt s.FE f) j) = e0 := by unfold edgeAt; rw [he0]; rfl
  have hget := rowSegs_remap_get s idx (rowAt s.t f) j e0 (by rw [hsort]; exact hsg)
  have : sg' = sortPair (mapPair (remap (nodeSel s idx)) e0) := by
    have h1 : (rowSegs ((rowAt s.t f).map (remap (nodeSel s idx))))[j]? = some sg' := by
      rw [List.getElem?_eq_getElem hj, hje]
    rw [h1] at hget
    exact Option.some.inj hget
  rw [this]
  refine List.mem_map.mpr ⟨mapPair (remap (nodeSel s idx)) e0, ?_, rfl⟩
  refine List.mem_map.mpr ⟨entry (rowAt s.FE f) j, hsel, ?_⟩
  rw [hE]

theorem getElem_inj_of_nodup {α} {l : List α} (hn : l.Nodup) {i j : Nat} (hi : i < l.length)
    (hj : j < l.length) (h : l[i] = l[j]) : i = j := by
  have := List.pairwise_iff_getElem.mp hn
  rcases Nat.lt_trichotomy i j with hlt | heq | hgt
  · exact absurd h (this i j hi hj hlt)
  · exact heq
  · exact absurd h.symm (this j i hj hi hgt)

/-- **… exactly once** -/
theorem sub_edges_once (h : Pre n w s idx) : EdgesOnce (sliceFaces s idx).EN := by
  unfold EdgesOnce
  have hsrc : (s.EN.map sortPair).Nodup := h.2.1.2.2.1
  show (((edgeSel s idx).map (fun e => mapPair (remap (nodeSel s idx)) (edgeAt s.EN e))).map sortPair).Nodup
  rw [List.map_map]
  unfold List.Nodup
  rw [List.pairwise_map]
  refine List.Pairwise.imp_of_mem ?_ (nodup_sel (gather s.FE idx))
  intro a b ha hb hab heq
  apply hab
  obtain ⟨a1, a2⟩ := edge_nodes_selected h ha
  obtain ⟨b1, b2⟩ := edge_nodes_selected h hb
  have hsp : sortPair (edgeAt s.EN a) = sortPair (edgeAt s.EN b) :=
    mapPair_inj_sort (S := (· ∈ nodeSel s idx))
      (fun x y hx hy hxy => remap_inj (Or.inr hx) (Or.inr hy) hxy) ⟨a1, a2⟩ ⟨b1, b2⟩ heq
  obtain ⟨_, _, _, _, _, _, ea, hea, _⟩ := edge_slot h ha
  obtain ⟨_, _, _, _, _, _, eb, heb, _⟩ := edge_slot h hb
  obtain ⟨ha0, hal, hag⟩ := getI?_some hea
  obtain ⟨hb0, hbl, hbg⟩ := getI?_some heb
  have hEa : edgeAt s.EN a = ea := by unfold edgeAt; rw [hea]; rfl
  have hEb : edgeAt s.EN b = eb := by unfold edgeAt; rw [heb]; rfl
  rw [hEa, hEb] at hsp
  have hla : a.toNat < (s.EN.map sortPair).length := by simpa using hal
  have hlb : b.toNat < (s.EN.map sortPair).length := by simpa using hbl
  have e1 : (s.EN.map sortPair)[a.toNat] = sortPair ea := by
    rw [List.getElem_map]; congr 1
    have := List.getElem?_eq_getElem hal ▸ hag
    exact Option.some.inj this
  have e2 : (s.EN.map sortPair)[b.toNat] = sortPair eb := by
    rw [List.getElem_map]; congr 1
    have := List.getElem?_eq_getElem hbl ▸ hbg
    exact Option.some.inj this
  have := getElem_inj_of_nodup hsrc hla hlb (by rw [e1, e2, hsp])
  omega

/-- **C09, functional clause**: the edge tables that travel with the subset meet C02's
    specification OF THE SUBSET — so every table derived from them on request (C03) is a table of
    the restricted mesh. -/
theorem slice_functional (h : Pre n w s idx) : Functional w (sliceFaces s idx).obs :=
  ⟨sub_edges_sound h, sub_edges_complete h, sub_edges_once h, sub_faceEdges_ok h,
   C02.nPerFace_ok (slice_std h)⟩

/-- **C09 (main theorem, faces).**  For every source whose own tables are right and every valid
    duplicate-free index list, the model of `_slice_face_indices` meets the specification. -/
theorem slice_meets_spec (h : Pre n w s idx) : Slice.Spec s w idx (sliceFaces s idx).obs :=
  ⟨slice_faces_exact h, slice_functional h⟩

/-- should the edges of the subset ever be rebuilt from its faces, C02's theorem applies -/
theorem fresh_build_meets_spec (h : Pre n w s idx) :
    Edges.Spec (sliceFaces s idx).t w (Edges.build (sliceFaces s idx).t) :=
  C02.build_meets_spec (slice_std h)

end Functional

/-! ## 3. node / edge selections are inclusive -/

theorem touching_sel (rows : Table) (ind : List Nat) : Touching rows ind (sel (gather rows ind)) := by
  refine ⟨nodup_sel _, ?_, ?_⟩
  · intro f hf
    obtain ⟨hg, hne⟩ := mem_sel.mp hf
    exact ⟨hne, mem_gather.mp hg⟩
  · intro v hv f hf hne
    exact mem_sel.mpr ⟨mem_gather.mpr ⟨v, hv, hf⟩, hne⟩

theorem touching_nodes (NF : Table) (ind : List Nat) : Touching NF ind (facesOfNodes NF ind) :=
  touching_sel NF ind

theorem touching_edges (EF : List (Int × Int)) (ind : List Nat) :
    Touching (pairRows EF) ind (facesOfEdges EF ind) := touching_sel _ ind

theorem faces_ascending (rows : Table) (ind : List Nat) :
    (sel (gather rows ind)).Pairwise (· < ·) := sorted_sel _

/-- with a correct `node_face_connectivity` (C03): face `f` is in the subset iff one of the
    selected nodes is a corner of `f` -/
theorem nodes_inclusive {n : Nat} {t NF : Table} (hNF : Incidence.NodeFaceOK n t NF)
    {ind : List Nat} (hind : ∀ v ∈ ind, v < n) (f : Nat) (hf : f < t.length) :
    Int.ofNat f ∈ facesOfNodes NF ind ↔ ∃ v ∈ ind, Int.ofNat v ∈ Incidence.real (rowAt t f) := by
  unfold facesOfNodes
  rw [mem_sel]
  constructor
  · rintro ⟨hg, _⟩
    obtain ⟨v, hv, hx⟩ := mem_gather.mp hg
    exact ⟨v, hv, (hNF.2.1 v (hind v hv) f hf).mp hx⟩
  · rintro ⟨v, hv, hx⟩
    exact ⟨mem_gather.mpr ⟨v, hv, (hNF.2.1 v (hind v hv) f hf).mpr hx⟩, ofNat_ne_FILL f⟩

/-- every selected face index is a face of the source -/
theorem nodes_faces_valid {n : Nat} {t NF : Table} (hNF : Incidence.NodeFaceOK n t NF)
    {ind : List Nat} (hind : ∀ v ∈ ind, v < n) :
    ∀ x ∈ facesOfNodes NF ind, 0 ≤ x ∧ x < t.length := by
  intro x hx
  obtain ⟨hg, hne⟩ := mem_sel.mp hx
  obtain ⟨v, hv, hxr⟩ := mem_gather.mp hg
  have hvn : v < NF.length := by rw [hNF.1]; exact hind v hv
  rcases hNF.2.2 _ (rowAt_mem hvn) x hxr with h | h
  · exact absurd h hne
  · exact h

theorem rowAt_pairRows {EF : List (Int × Int)} {e : Nat} (he : e < EF.length) :
    rowAt (pairRows EF) e = [(EF.getD e (FILL, FILL)).1, (EF.getD e (FILL, FILL)).2] := by
  simp [rowAt, pairRows, List.getD, List.getElem?_map, List.getElem?_eq_getElem he]

/-- with a correct `edge_face_connectivity` (C03): face `f` is in the subset iff one of the
    selected edges is an edge of `f` -/
theorem edges_inclusive {FE : Table} {N : List Nat} {nEdge : Nat} {EF : List (Int × Int)}
    (hEF : Incidence.EdgeFaceOK FE N nEdge EF) {ind : List Nat} (hind : ∀ e ∈ ind, e < nEdge)
    (f : Nat) (hf : f < FE.length) :
    Int.ofNat f ∈ facesOfEdges EF ind ↔ ∃ e ∈ ind, Int.ofNat e ∈ Incidence.faceEdgesOf FE N f := by
  unfold facesOfEdges
  rw [mem_sel]
  have key : ∀ e ∈ ind, (Int.ofNat f ∈ rowAt (pairRows EF) e ↔
      Int.ofNat e ∈ Incidence.faceEdgesOf FE N f) := by
    intro e he
    have hen := hind e he
    rw [rowAt_pairRows (by rw [hEF.1]; exact hen)]
    have := (hEF.2 e hen).2.2.2 f hf
    simp only [List.mem_cons, List.mem_nil_iff, or_false]
    exact this
  constructor
  · rintro ⟨hg, _⟩
    obtain ⟨e, he, hx⟩ := mem_gather.mp hg
    exact ⟨e, he, (key e he).mp hx⟩
  · rintro ⟨e, he, hx⟩
    exact ⟨mem_gather.mpr ⟨e, he, (key e he).mpr hx⟩, ofNat_ne_FILL f⟩

/-! ## 4. data stay attached -/

/-- rank 1: entry `i` of the sliced data is the source entry at the recorded index `ri[i]` -/
theorem data_aligned_get {α} (d : List α) (ri : List Nat) (i : Nat) (hi : i < ri.length) :
    (iselLast d ri)[i]? = some d[ri[i]]? := by
  simp [iselLast, List.getElem?_map, List.getElem?_eq_getElem hi]

/-- **any rank**: at every leading multi-index `ks`, entry `i` of the sliced array is the source
    entry at `(ks, ri[i])` (`none` on both sides when an index is out of range) -/
theorem data_aligned_rank {α} (r : Nat) (d : NArr α r) (ri : List Nat) (ks : List Nat) (i : Nat) :
    (atN r (iselN r d ri) ks i).join = (ri[i]?).bind (fun j => atN r d ks j) := by
  induction r generalizing ks with
  | zero =>
    simp only [atN, iselN, iselLast, List.getElem?_map]
    cases ri[i]? <;> simp
  | succ r ih =>
    cases ks with
    | nil =>
      simp only [atN]
      cases ri[i]? <;> simp
    | cons k ks =>
      have hd : ∀ (l : List (NArr α r)),
          (atN (r + 1) (iselN (r + 1) (l : NArr α (r + 1)) ri) (k :: ks) i).join
          = (ri[i]?).bind (fun j => atN (r + 1) (l : NArr α (r + 1)) (k :: ks) j) := by
        intro l
        simp only [atN, iselN, List.getElem?_map]
        cases l[k]? with
        | none => cases ri[i]? <;> simp
        | some x => simpa using ih x ks
      exact hd d

/-- the decidable form the driver evaluates, for the model's own slicing -/
theorem data_aligned (ri : List Nat) (src : List (List Int)) (n : Nat)
    (hrows : ∀ d ∈ src, d.length = n) (hri : ∀ j ∈ ri, j < n) :
    DataAligned ri src (src.map (fun d => ri.map (fun j => d.getD j 0))) := by
  refine ⟨by simp, ?_⟩
  intro l hl
  have hd : src[l] ∈ src := List.getElem_mem hl
  rw [getD_lt [] hl, getD_lt [] (by simpa using hl)]
  simp only [List.getElem_map, iselLast, List.map_map]
  apply List.map_congr_left
  intro j hj
  have : j < (src[l]).length := by rw [hrows _ hd]; exact hri j hj
  simp [List.getD, List.getElem?_eq_getElem this]

/-! ## 5. the latitude scan -/

section Scan
variable {K : Type} [Sub K] [Mul K] [LT K] [DecidableLT K] [OfNat K 0]

/-- does iteration `i` set its cell -/
def crossAt (c : K) (Z : List (K × K)) (i : Nat) : Bool :=
  match Z[i]? with
  | some z => crosses c z
  | none => false

theorem maskStep_length (c : K) (Z : List (K × K)) (m : List Bool) (i : Nat) :
    (maskStep c Z m i).length = m.length := by
  unfold maskStep
  cases Z[i]? with
  | none => rfl
  | some z => dsimp only; split <;> simp

theorem maskStep_get (c : K) (Z : List (K × K)) (m : List Bool) (hm : m.length = Z.length) (i k : Nat) :
    (maskStep c Z m i).getD k false = (m.getD k false || (decide (k = i) && crossAt c Z i)) := by
  unfold maskStep crossAt
  cases hz : Z[i]? with
  | none => simp
  | some z =>
    have hi : i < Z.length := (List.getElem?_eq_some_iff.mp hz).1
    dsimp only
    by_cases hc : crosses c z = true
    · rw [if_pos hc, hc]
      by_cases hk : k = i
      · subst hk
        simp [List.getD, hm, hi]
      · have : ¬ i = k := fun h => hk h.symm
        simp [List.getD, hk, this]
    · rw [if_neg hc]
      have : crosses c z = false := by simpa using hc
      simp [this]

theorem maskFold (c : K) (Z : List (K × K)) (order : List Nat) (m : List Bool) (hm : m.length = Z.length) :
    (order.foldl (maskStep c Z) m).length = Z.length ∧
    ∀ k, (order.foldl (maskStep c Z) m).getD k false
      = (m.getD k false || (decide (k ∈ order) && crossAt c Z k)) := by
  induction order generalizing m with
  | nil => simp [hm]
  | cons i order ih =>
    have hl : (maskStep c Z m i).length = Z.length := by rw [maskStep_length, hm]
    obtain ⟨h1, h2⟩ := ih (maskStep c Z m i) hl
    refine ⟨h1, ?_⟩
    intro k
    rw [List.foldl_cons, h2 k, maskStep_get c Z m hm i k]
    by_cases hk : k = i
    · subst hk
      simp
      cases m[k]?.getD false <;> cases crossAt c Z k <;> simp
    · have : ¬ (k = i ∨ k ∈ order) ↔ ¬ k ∈ order := by simp [hk]
      by_cases hko : k ∈ order <;> simp [hk, hko]

/-- cell `k` of the mask is set iff iteration `k` was run and edge `k` crosses -/
theorem maskLoop_get (c : K) (Z : List (K × K)) (order : List Nat) (k : Nat) :
    (maskLoop c Z order).getD k false = (decide (k ∈ order) && crossAt c Z k) := by
  have := (maskFold c Z order (List.replicate Z.length false) (by simp)).2 k
  unfold maskLoop
  rw [this]
  have h0 : (List.replicate Z.length false).getD k false = false := by
    simp only [List.getD, List.getElem?_replicate]
    split <;> rfl
  rw [h0, Bool.false_or]

theorem maskLoop_length (c : K) (Z : List (K × K)) (order : List Nat) :
    (maskLoop c Z order).length = Z.length :=
  (maskFold c Z order (List.replicate Z.length false) (by simp)).1

/-- **schedules**: the mask does not depend on the order in which the `prange` iterations run -/
theorem mask_order_irrelevant (c : K) (Z : List (K × K)) {o₁ o₂ : List Nat} (h : o₁.Perm o₂) :
    maskLoop c Z o₁ = maskLoop c Z o₂ := by
  apply List.ext_getElem?
  intro k
  have l1 := maskLoop_length c Z o₁
  have l2 := maskLoop_length c Z o₂
  by_cases hk : k < Z.length
  · have g1 := maskLoop_get c Z o₁ k
    have g2 := maskLoop_get c Z o₂ k
    rw [List.getD, List.getElem?_eq_getElem (by omega)] at g1 g2
    rw [List.getElem?_eq_getElem (by omega), List.getElem?_eq_getElem (by omega)]
    simp only [Option.getD_some] at g1 g2
    rw [g1, g2]
    have : (k ∈ o₁) ↔ (k ∈ o₂) := h.mem_iff
    simp [this]
  · rw [List.getElem?_eq_none (by omega), List.getElem?_eq_none (by omega)]

theorem mem_maskIdx (m : List Bool) (k : Nat) : k ∈ maskIdx m ↔ k < m.length ∧ m.getD k false = true := by
  simp [maskIdx, List.mem_filter]

/-- the edges reported by the scan, for ANY schedule that runs every iteration -/
theorem crossingEdges_iff (c : K) (Z : List (K × K)) {order : List Nat}
    (h : order.Perm (List.range Z.length)) (e : Nat) :
    e ∈ crossingEdges c Z order ↔ ∃ z, Z[e]? = some z ∧ crosses c z = true := by
  unfold crossingEdges
  rw [mem_maskIdx, maskLoop_length, maskLoop_get]
  have hm : e ∈ order ↔ e < Z.length := by rw [h.mem_iff]; simp
  constructor
  · rintro ⟨hl, hx⟩
    simp only [Bool.and_eq_true, decide_eq_true_eq] at hx
    unfold crossAt at hx
    rw [List.getElem?_eq_getElem hl] at hx
    exact ⟨Z[e], List.getElem?_eq_getElem hl, hx.2⟩
  · rintro ⟨z, hz, hc⟩
    have hl : e < Z.length := (List.getElem?_eq_some_iff.mp hz).1
    refine ⟨hl, ?_⟩
    simp only [Bool.and_eq_true, decide_eq_true_eq]
    refine ⟨hm.mpr hl, ?_⟩
    unfold crossAt; rw [hz]; exact hc

theorem crossingEdges_lt (c : K) (Z : List (K × K)) (order : List Nat) :
    ∀ e ∈ crossingEdges c Z order, e < Z.length := by
  intro e he
  unfold crossingEdges at he
  rw [mem_maskIdx, maskLoop_length] at he
  exact he.1

/-- **cross-section ⇔ specification** (combinatorial part): with a correct `edge_face_connectivity`
    (C03) and any schedule, face `f` is reported iff one of ITS edges is reported crossing -/
theorem crosssec_faces_iff (c : K) (Z : List (K × K)) {order : List Nat}
    {FE : Table} {N : List Nat} {EF : List (Int × Int)}
    (hEF : Incidence.EdgeFaceOK FE N Z.length EF) (h : order.Perm (List.range Z.length))
    (f : Nat) (hf : f < FE.length) :
    Int.ofNat f ∈ facesAt c Z order EF ↔
      ∃ e z, Int.ofNat e ∈ Incidence.faceEdgesOf FE N f ∧ Z[e]? = some z ∧ crosses c z = true := by
  unfold facesAt
  rw [edges_inclusive hEF (crossingEdges_lt c Z order) f hf]
  constructor
  · rintro ⟨e, he, hfe⟩
    obtain ⟨z, hz, hc⟩ := (crossingEdges_iff c Z h e).mp he
    exact ⟨e, z, hfe, hz, hc⟩
  · rintro ⟨e, z, hfe, hz, hc⟩
    exact ⟨e, (crossingEdges_iff c Z h e).mpr ⟨z, hz, hc⟩, hfe⟩

end Scan

/-- the sign test is "end nodes strictly on opposite sides of the parallel", in any ordered field -/
theorem crosses_iff {K : Type} [Field K] [LinearOrder K] [IsStrictOrderedRing K] (c : K) (z : K × K) :
    crosses c z = true ↔ (z.1 < c ∧ c < z.2) ∨ (z.2 < c ∧ c < z.1) := by
  unfold crosses
  rw [decide_eq_true_iff, mul_neg_iff]
  simp only [sub_pos, sub_neg]
  constructor
  · rintro (⟨h1, h2⟩ | ⟨h1, h2⟩)
    · right; exact ⟨h2, h1⟩
    · left; exact ⟨h1, h2⟩
  · rintro (⟨h1, h2⟩ | ⟨h1, h2⟩)
    · right; exact ⟨h1, h2⟩
    · left; exact ⟨h2, h1⟩

/-- **C09, cross-section clause**: `f` is selected iff it has an edge whose end nodes lie strictly
    on opposite sides of the parallel — for every schedule of the parallel loop -/
theorem crosssec_iff {K : Type} [Field K] [LinearOrder K] [IsStrictOrderedRing K]
    (c : K) (Z : List (K × K)) {order : List Nat}
    {FE : Table} {N : List Nat} {EF : List (Int × Int)}
    (hEF : Incidence.EdgeFaceOK FE N Z.length EF) (h : order.Perm (List.range Z.length))
    (f : Nat) (hf : f < FE.length) :
    Int.ofNat f ∈ facesAt c Z order EF ↔
      ∃ e z, Int.ofNat e ∈ Incidence.faceEdgesOf FE N f ∧ Z[e]? = some z ∧
        ((z.1 < c ∧ c < z.2) ∨ (z.2 < c ∧ c < z.1)) := by
  rw [crosssec_faces_iff c Z hEF h f hf]
  constructor
  · rintro ⟨e, z, h1, h2, h3⟩; exact ⟨e, z, h1, h2, (crosses_iff c z).mp h3⟩
  · rintro ⟨e, z, h1, h2, h3⟩; exact ⟨e, z, h1, h2, (crosses_iff c z).mpr h3⟩

/-! ## 6. region selectors as predicates on the reference points -/

section Sel
variable {K : Type} [LT K] [LE K] [DecidableLT K] [DecidableLE K]

/-- **box**: element `i` is selected iff its reference point passes the longitude and latitude
    tests; the indices come out ascending, without repetition -/
theorem box_iff (b : Box K) (lon lat : List K) (i : Nat) :
    i ∈ boxSel b lon lat ↔ ∃ x y, lon[i]? = some x ∧ lat[i]? = some y ∧ inLon b x = true ∧ inLat b y = true := by
  unfold boxSel
  rw [List.mem_filter, List.mem_range]
  unfold inBoxAt
  constructor
  · rintro ⟨hi, h⟩
    cases hx : lon[i]? with
    | none => rw [hx] at h; simp at h
    | some x =>
      cases hy : lat[i]? with
      | none => rw [hx, hy] at h; simp at h
      | some y =>
        rw [hx, hy] at h
        simp only [Bool.and_eq_true] at h
        exact ⟨x, y, rfl, rfl, h.1, h.2⟩
  · rintro ⟨x, y, hx, hy, h1, h2⟩
    refine ⟨(List.getElem?_eq_some_iff.mp hx).1, ?_⟩
    rw [hx, hy]; simp [h1, h2]

theorem box_ascending (b : Box K) (lon lat : List K) : (boxSel b lon lat).Pairwise (· < ·) := by
  unfold boxSel
  exact List.Pairwise.filter _ List.pairwise_lt_range

omit [LT K] [DecidableLT K] in
/-- **circle**: element `i` is selected iff its distance is at most `r` -/
theorem circle_iff (d : List K) (r : K) (i : Nat) :
    i ∈ circleSel d r ↔ ∃ x, d[i]? = some x ∧ x ≤ r := by
  unfold circleSel
  rw [List.mem_filter, List.mem_range]
  constructor
  · rintro ⟨hi, h⟩
    rw [List.getElem?_eq_getElem hi] at h
    exact ⟨d[i], List.getElem?_eq_getElem hi, by simpa using h⟩
  · rintro ⟨x, hx, hr⟩
    refine ⟨(List.getElem?_eq_some_iff.mp hx).1, ?_⟩
    rw [hx]; simpa using hr

end Sel

/-- what the longitude test of a box means: the open interval, or — when the box spans the
    antimeridian — the two half-open pieces `[-180, lon1) ∪ [lon0, 180)`, i.e. for a valid longitude
    everything outside the gap `[lon1, lon0)` -/
theorem inLon_iff {K : Type} [LinearOrder K] (b : Box K) (x : K)
    (hx : b.m180 ≤ x ∧ x < b.p180) :
    inLon b x = true ↔ if b.lon1 < b.lon0 then ¬ (b.lon1 ≤ x ∧ x < b.lon0) else (b.lon0 < x ∧ x < b.lon1) := by
  unfold inLon
  by_cases hb : b.lon1 < b.lon0
  · rw [if_pos hb, if_pos hb]
    simp only [Bool.or_eq_true, Bool.and_eq_true, decide_eq_true_eq]
    constructor
    · rintro (⟨_, h2⟩ | ⟨h1, _⟩)
      · intro ⟨h3, _⟩; exact absurd h2 (not_lt.mpr h3)
      · intro ⟨_, h4⟩; exact absurd h4 (not_lt.mpr h1)
    · intro h
      by_cases h1 : x < b.lon1
      · left; exact ⟨hx.1, h1⟩
      · right
        have h1' : b.lon1 ≤ x := not_lt.mp h1
        have : ¬ x < b.lon0 := fun h2 => h ⟨h1', h2⟩
        exact ⟨not_lt.mp this, hx.2⟩
  · rw [if_neg hb, if_neg hb]
    simp only [Bool.and_eq_true, decide_eq_true_eq]

/-! ### k nearest -/

section Knn
variable {K : Type} [LinearOrder K]

theorem insByDist_perm (x : K × Nat) (l : List (K × Nat)) : (insByDist x l).Perm (x :: l) := by
  induction l with
  | nil => exact List.Perm.refl _
  | cons y ys ih =>
    unfold insByDist
    split
    · exact ((List.Perm.cons y ih).trans (List.Perm.swap x y ys))
    · exact List.Perm.refl _

theorem sortByDist_perm (l : List (K × Nat)) : (sortByDist l).Perm l := by
  induction l with
  | nil => exact List.Perm.refl _
  | cons x xs ih =>
    show (insByDist x (sortByDist xs)).Perm (x :: xs)
    exact (insByDist_perm x _).trans (List.Perm.cons x ih)

theorem insByDist_sorted (x : K × Nat) (l : List (K × Nat))
    (h : l.Pairwise (fun a b => a.1 ≤ b.1)) : (insByDist x l).Pairwise (fun a b => a.1 ≤ b.1) := by
  induction l with
  | nil => simp [insByDist]
  | cons y ys ih =>
    have hy := List.pairwise_cons.mp h
    unfold insByDist
    split
    · rename_i hyx
      refine List.pairwise_cons.mpr ⟨?_, ih hy.2⟩
      intro b hb
      rcases List.mem_cons.mp ((insByDist_perm x ys).mem_iff.mp hb) with rfl | hb'
      · exact hyx
      · exact hy.1 b hb'
    · rename_i hyx
      have hxy : x.1 ≤ y.1 := le_of_lt (not_le.mp hyx)
      refine List.pairwise_cons.mpr ⟨?_, h⟩
      intro b hb
      rcases List.mem_cons.mp hb with rfl | hb'
      · exact hxy
      · exact le_trans hxy (hy.1 b hb')

theorem sortByDist_sorted (l : List (K × Nat)) : (sortByDist l).Pairwise (fun a b => a.1 ≤ b.1) := by
  induction l with
  | nil => simp [sortByDist]
  | cons x xs ih => exact insByDist_sorted x _ ih

theorem zipIdx_snd_range {α} (d : List α) : d.zipIdx.map (·.2) = List.range d.length := by
  apply List.ext_getElem
  · simp
  · intro i h1 h2; simp

/-- **k nearest**: `k` (or all) distinct valid elements, none of them farther than an element
    that was left out -/
theorem knn_spec (d : List K) (k : Nat) :
    (knnSel d k).Nodup ∧ (knnSel d k).length = min k d.length ∧ (∀ i ∈ knnSel d k, i < d.length) ∧
    ∀ i ∈ knnSel d k, ∀ j, j < d.length → j ∉ knnSel d k →
      ∀ x y, d[i]? = some x → d[j]? = some y → x ≤ y := by
  have hperm := sortByDist_perm d.zipIdx
  have hsorted := sortByDist_sorted d.zipIdx
  have hall : ((sortByDist d.zipIdx).map (·.2)).Perm (List.range d.length) := by
    rw [← zipIdx_snd_range]; exact hperm.map _
  have hnd : ((sortByDist d.zipIdx).map (·.2)).Nodup := hall.nodup_iff.mpr List.nodup_range
  have htake : knnSel d k = ((sortByDist d.zipIdx).map (·.2)).take k := by
    unfold knnSel; rw [List.map_take]
  have hmemz : ∀ p ∈ sortByDist d.zipIdx, p.2 < d.length ∧ d[p.2]? = some p.1 := by
    intro p hp
    have hp' := hperm.mem_iff.mp hp
    have := List.mem_zipIdx (x := p.1) (i := p.2) (k := 0) hp'
    simp only [Nat.zero_le, Nat.zero_add, Nat.sub_zero, true_and] at this
    exact ⟨this.1, by rw [List.getElem?_eq_getElem this.1]; exact congrArg some this.2.symm⟩
  refine ⟨?_, ?_, ?_, ?_⟩
  · rw [htake]; exact (List.take_sublist _ _).nodup hnd
  · rw [htake, List.length_take, List.length_map, hperm.length_eq]; simp
  · intro i hi
    rw [htake] at hi
    have := hall.mem_iff.mp ((List.take_sublist _ _).subset hi)
    simpa using this
  · intro i hi j hj hjn x y hx hy
    -- split the sorted list at k
    have hsplit := List.take_append_drop k (sortByDist d.zipIdx)
    rw [← hsplit, List.pairwise_append] at hsorted
    unfold knnSel at hi hjn
    rcases List.mem_map.mp hi with ⟨p, hp, rfl⟩
    have hpin := hmemz p ((List.take_sublist _ _).subset hp)
    -- (y, j) is in the sorted list, not among the first k
    have hjmem : (y, j) ∈ sortByDist d.zipIdx := by
      apply hperm.mem_iff.mpr
      have hjl := hj
      have : d[j] = y := by
        have := List.getElem?_eq_getElem hjl ▸ hy
        exact Option.some.inj this
      rw [← this]
      exact List.mk_mem_zipIdx_iff_getElem?.mpr (by simp [List.getElem?_eq_getElem hjl])
    rw [← hsplit, List.mem_append] at hjmem
    rcases hjmem with hq | hq
    · exact absurd (List.mem_map.mpr ⟨(y, j), hq, rfl⟩) hjn
    · have := hsorted.2.2 p hp (y, j) hq
      have hpx : p.1 = x := by
        have := hpin.2; rw [hx] at this; exact (Option.some.inj this).symm
      rw [← hpx]; exact this

end Knn

/-! ## 7. histories: whatever was materialised on the source before, the subset answers every
    request, with the same tables -/

/-- the tables a grid's derived variables are functions of -/
structure Base where
  w : Nat
  t : Table
  EN : List (Int × Int)
  FE : Table

def Base.N (B : Base) : List Nat := nNodesPerFace B.t
def Base.NF (B : Base) : Table := Incidence.nodeFace (nNodeOf B.t) B.t
def Base.EF (B : Base) : List (Int × Int) := Incidence.edgeFace B.FE B.N B.EN.length
def Base.FF (B : Base) : Table := Incidence.faceFace B.t.length B.w B.EF
def Base.H (B : Base) : List Nat := Incidence.holeEdges B.EF

/-- what every request on a grid with base `B` reports -/
def Base.view (B : Base) : View :=
  { en := B.EN, fe := B.FE, npf := B.N, nf := B.NF, ef := B.EF, ff := B.FF, holes := B.H }

def optIs {α} (o : Option α) (v : α) : Prop := o = none ∨ o = some v

/-- coherence of a grid's dataset: every materialised variable holds the value determined by the
    base tables, and the edge tables are either both there or can still be built consistently
    (the `inverse_indices` attribute belongs to THIS grid's faces) -/
structure Coh (B : Base) (g : State) : Prop where
  w : g.w = B.w
  t : g.t = B.t
  en : optIs g.en B.EN
  fe : optIs g.fe B.FE
  npf : optIs g.npf B.N
  nf : optIs g.nf B.NF
  ef : optIs g.ef B.EF
  ff : optIs g.ff B.FF
  holes : optIs g.holes B.H
  ready : (g.en = some B.EN ∧ g.fe = some B.FE) ∨
    (g.fe = none ∧ B.EN = edges B.t ∧ B.FE = reshape B.w (faceEdges B.t).flatten ∧
      (faceEdges B.t).flatten.length = B.t.length * B.w ∧
      (g.en = none ∨ (g.en = some B.EN ∧ g.inv = some (faceEdges B.t).flatten))) ∨
    -- the source ships `edge_node_connectivity` only: it is kept, the faces' edges are looked up in it
    (g.fe = none ∧ g.en = some B.EN ∧ g.inv = none ∧ lookupFE B.t B.EN = some B.FE)

theorem optIs_some {α} {o : Option α} {v : α} (h : optIs o v) (hs : o.isSome = true) : o = some v := by
  rcases h with h | h
  · rw [h] at hs; cases hs
  · exact h

theorem getEN_coh {B : Base} {g : State} (h : Coh B g) :
    Coh B (getEN g) ∧ (getEN g).en = some B.EN := by
  unfold getEN
  by_cases hs : g.en.isSome = true
  · rw [if_pos hs]; exact ⟨h, optIs_some h.en hs⟩
  · rw [if_neg hs]
    have hnone : g.en = none := by simpa using hs
    rcases h.ready with ⟨h1, _⟩ | ⟨hfe, hE, hF, hL, _⟩ | ⟨_, h1, _⟩
    · rw [hnone] at h1; cases h1
    · have e1 : (popEN g).en = some B.EN := by simp [popEN, h.t, hE]
      refine ⟨{ h with en := Or.inr e1, fe := h.fe, ready := Or.inr (Or.inl ⟨by simpa [popEN] using hfe, hE, hF, hL, Or.inr ⟨e1, by simp [popEN, h.t]⟩⟩) }, e1⟩
    · rw [hnone] at h1; cases h1

theorem getFE_coh {B : Base} {g : State} (h : Coh B g) :
    ∃ g', getFE g = some g' ∧ Coh B g' ∧ g'.en = some B.EN ∧ g'.fe = some B.FE := by
  unfold getFE
  by_cases hs : g.fe.isSome = true
  · rw [if_pos hs]
    have hfe := optIs_some h.fe hs
    rcases h.ready with ⟨h1, _⟩ | ⟨h1, _⟩ | ⟨h1, _⟩
    · exact ⟨g, rfl, h, h1, hfe⟩
    · rw [h1] at hfe; cases hfe
    · rw [h1] at hfe; cases hfe
  · rw [if_neg hs]
    have hnone : g.fe = none := by simpa using hs
    rcases h.ready with ⟨_, h2⟩ | ⟨_, hE, hF, hL, hen⟩ | ⟨_, hen, hinv, hlk⟩
    · rw [hnone] at h2; cases h2
    · -- the edges are this grid's own construction: `inverse_indices` (rebuilt if need be) is reshaped
      have fin : ∀ g1 : State, g1.en = some B.EN → g1.inv = some (faceEdges B.t).flatten → g1.t = B.t →
          g1.w = B.w → g1.npf = g.npf → g1.nf = g.nf → g1.ef = g.ef → g1.ff = g.ff → g1.holes = g.holes →
          ∃ g', finishFE g1 = some g' ∧ Coh B g' ∧ g'.en = some B.EN ∧ g'.fe = some B.FE := by
        intro g1 e1 e2 e3 e4 e6 e7 e8 e9 e10
        unfold finishFE
        rw [e2]
        simp only [e3, e4]
        rw [if_pos hL]
        refine ⟨_, rfl, ?_, e1, by simp [hF]⟩
        exact { w := rfl, t := rfl, en := Or.inr e1,
                fe := Or.inr (by simp [hF]), npf := by simpa [e6] using h.npf, nf := by simpa [e7] using h.nf,
                ef := by simpa [e8] using h.ef, ff := by simpa [e9] using h.ff,
                holes := by simpa [e10] using h.holes,
                ready := Or.inl ⟨e1, by simp [hF]⟩ }
      rcases hen with hen | ⟨hen, hinv⟩
      · rw [hen]
        exact fin (popEN g) (by simp [popEN, h.t, hE]) (by simp [popEN, h.t]) h.t h.w rfl rfl rfl rfl rfl
      · rw [hen, hinv]
        exact fin g hen hinv h.t h.w rfl rfl rfl rfl rfl
    · -- the source's own edge table is kept: the faces' edges are looked up in it
      rw [hen, hinv]
      simp only [h.t, hlk]
      refine ⟨_, rfl, ?_, rfl, rfl⟩
      exact { w := h.w, t := rfl, en := Or.inr rfl, fe := Or.inr rfl, npf := h.npf, nf := h.nf, ef := h.ef,
              ff := h.ff, holes := h.holes, ready := Or.inl ⟨rfl, rfl⟩ }

theorem getNPF_coh {B : Base} {g : State} (h : Coh B g) :
    Coh B (getNPF g) ∧ (getNPF g).npf = some B.N ∧ (getNPF g).en = g.en ∧ (getNPF g).fe = g.fe := by
  unfold getNPF
  by_cases hs : g.npf.isSome = true
  · rw [if_pos hs]; exact ⟨h, optIs_some h.npf hs, rfl, rfl⟩
  · rw [if_neg hs]
    have e : some (nNodesPerFace g.t) = some B.N := by rw [h.t]; rfl
    exact ⟨{ h with npf := Or.inr e }, e, rfl, rfl⟩

theorem getNF_coh {B : Base} {g : State} (h : Coh B g) :
    Coh B (getNF g) ∧ (getNF g).nf = some B.NF := by
  unfold getNF
  by_cases hs : g.nf.isSome = true
  · rw [if_pos hs]; exact ⟨h, optIs_some h.nf hs⟩
  · rw [if_neg hs]
    have e : some (Incidence.nodeFace (nNodeOf g.t) g.t) = some B.NF := by rw [h.t]; rfl
    exact ⟨{ h with nf := Or.inr e }, e⟩

theorem getEF_coh {B : Base} {g : State} (h : Coh B g) :
    ∃ g', getEF g = some g' ∧ Coh B g' ∧ g'.ef = some B.EF := by
  unfold getEF
  by_cases hs : g.ef.isSome = true
  · rw [if_pos hs]; exact ⟨g, rfl, h, optIs_some h.ef hs⟩
  · rw [if_neg hs]
    obtain ⟨g1, hg1, c1, en1, fe1⟩ := getFE_coh h
    obtain ⟨c2, en2⟩ := getEN_coh c1
    obtain ⟨c3, n3, en3, fe3⟩ := getNPF_coh c2
    have hEN : getEN g1 = g1 := by unfold getEN; rw [en1]; rfl
    rw [hEN] at c3 n3 en3 fe3
    simp only [hg1, Option.bind_eq_bind, Option.bind_some, hEN, Option.pure_def]
    have e : some (Incidence.edgeFace ((getNPF g1).fe.getD []) ((getNPF g1).npf.getD [])
        (((getNPF g1).en.getD []).length)) = some B.EF := by
      rw [fe3, fe1, n3, en3, en1]; rfl
    exact ⟨_, rfl, { c3 with ef := Or.inr e }, e⟩

theorem getFF_coh {B : Base} {g : State} (h : Coh B g) :
    ∃ g', getFF g = some g' ∧ Coh B g' ∧ g'.ff = some B.FF := by
  unfold getFF
  by_cases hs : g.ff.isSome = true
  · rw [if_pos hs]; exact ⟨g, rfl, h, optIs_some h.ff hs⟩
  · rw [if_neg hs]
    obtain ⟨g1, hg1, c1, ef1⟩ := getEF_coh h
    simp only [hg1, Option.bind_eq_bind, Option.bind_some, Option.pure_def]
    have e : some (Incidence.faceFace g1.t.length g1.w (g1.ef.getD [])) = some B.FF := by
      rw [ef1, c1.t, c1.w]; rfl
    exact ⟨_, rfl, { c1 with ff := Or.inr e }, e⟩

theorem getHoles_coh {B : Base} {g : State} (h : Coh B g) :
    ∃ g', getHoles g = some g' ∧ Coh B g' ∧ g'.holes = some B.H := by
  unfold getHoles
  by_cases hs : g.holes.isSome = true
  · rw [if_pos hs]; exact ⟨g, rfl, h, optIs_some h.holes hs⟩
  · rw [if_neg hs]
    obtain ⟨g1, hg1, c1, ef1⟩ := getEF_coh h
    simp only [hg1, Option.bind_eq_bind, Option.bind_some, Option.pure_def]
    have e : some (Incidence.holeEdges (g1.ef.getD [])) = some B.H := by rw [ef1]; rfl
    exact ⟨_, rfl, { c1 with holes := Or.inr e }, e⟩

/-- requesting `edge_face_distances` keeps coherence (it only adds its own variable) -/
theorem getEFD_coh {B : Base} {g : State} (h : Coh B g) :
    ∃ g', getEFD g = some g' ∧ Coh B g' := by
  unfold getEFD
  by_cases hs : g.efd.isSome = true
  · rw [if_pos hs]; exact ⟨g, rfl, h⟩
  · rw [if_neg hs]
    obtain ⟨g1, hg1, c1, _⟩ := getEF_coh h
    simp only [hg1, Option.bind_eq_bind, Option.bind_some, Option.pure_def]
    exact ⟨_, rfl, { w := c1.w, t := c1.t, en := c1.en, fe := c1.fe, npf := c1.npf, nf := c1.nf,
                     ef := c1.ef, ff := c1.ff, holes := c1.holes, ready := c1.ready }⟩

/-- coherence does not mention how the arrays are stored -/
theorem coh_backing {B : Base} {g : State} (h : Coh B g) (b : Backing) : Coh B { g with backing := b } :=
  { w := h.w, t := h.t, en := h.en, fe := h.fe, npf := h.npf, nf := h.nf, ef := h.ef, ff := h.ff,
    holes := h.holes, ready := h.ready }

/-- no request on a coherent grid raises, and coherence is kept (`Grid.chunk` is one of the requests:
    it changes the backing of the arrays and no value) -/
theorem request_coh {B : Base} {g : State} (h : Coh B g) (v : Var) :
    ∃ g', request g v = some g' ∧ Coh B g' := by
  cases v with
  | edgeNode => exact ⟨_, rfl, (getEN_coh h).1⟩
  | faceEdge => obtain ⟨g', h1, h2, _⟩ := getFE_coh h; exact ⟨g', h1, h2⟩
  | nPerFace => exact ⟨_, rfl, (getNPF_coh h).1⟩
  | nodeFace => exact ⟨_, rfl, (getNF_coh h).1⟩
  | edgeFace => obtain ⟨g', h1, h2, _⟩ := getEF_coh h; exact ⟨g', h1, h2⟩
  | faceFace => obtain ⟨g', h1, h2, _⟩ := getFF_coh h; exact ⟨g', h1, h2⟩
  | holes => obtain ⟨g', h1, h2, _⟩ := getHoles_coh h; exact ⟨g', h1, h2⟩
  | edgeFaceDist => exact getEFD_coh h
  | chunk => exact ⟨_, rfl, coh_backing h .dask⟩

theorem runHist_coh {B : Base} {g : State} (h : Coh B g) (hist : List Var) :
    ∃ g', runHist g hist = some g' ∧ Coh B g' := by
  induction hist generalizing g with
  | nil => exact ⟨g, rfl, h⟩
  | cons v vs ih =>
    obtain ⟨g1, h1, c1⟩ := request_coh h v
    obtain ⟨g2, h2, c2⟩ := ih c1
    exact ⟨g2, by simp [runHist, h1, h2], c2⟩

/-- **a coherent grid reports its base's tables, whatever is requested first** -/
theorem view_coh {B : Base} {g : State} (h : Coh B g) (order : List Var) :
    g.view order = some B.view := by
  obtain ⟨g0, h0, c0⟩ := runHist_coh h order
  have c1 := getEN_coh c0
  obtain ⟨g2, h2, c2, _, fe2⟩ := getFE_coh c1.1
  have c3 := getNPF_coh c2
  have c4 := getNF_coh c3.1
  obtain ⟨g5, h5, c5, ef5⟩ := getEF_coh c4.1
  obtain ⟨g6, h6, c6, ff6⟩ := getFF_coh c5
  obtain ⟨g7, h7, c7, ho7⟩ := getHoles_coh c6
  simp only [State.view, h0, request, Option.bind_eq_bind, Option.bind_some, h2, h5, h6, h7,
    Option.pure_def, c1.2, fe2, c3.2.1, c4.2, ef5, ff6, ho7, Option.getD_some]
  rfl

/-- the base of the subset -/
def Base.slice (B : Base) (idx : List Nat) : Base :=
  let u := sliceFaces { t := B.t, EN := B.EN, FE := B.FE } idx
  { w := B.w, t := u.t, EN := u.EN, FE := u.FE }

theorem nNodesRow_map {g : Int → Int} (hg : ∀ x, g x = FILL ↔ x = FILL) (r : List Int) :
    nNodesRow (r.map g) = nNodesRow r := by
  unfold nNodesRow
  have : r.map g ++ [FILL] = (r ++ [FILL]).map g := by simp [(hg FILL).mpr rfl]
  rw [this]
  generalize r ++ [FILL] = l
  induction l with
  | nil => rfl
  | cons a l ih =>
    simp only [List.map_cons, List.idxOf_cons]
    by_cases ha : a = FILL
    · subst ha
      have : g FILL = FILL := (hg FILL).mpr rfl
      simp [this]
    · have h1 : g a ≠ FILL := fun h => ha ((hg a).mp h)
      have e1 : (g a == FILL) = false := by simpa using h1
      have e2 : (a == FILL) = false := by simpa using ha
      rw [e1, e2]; simp [ih]

/-- **slicing a coherent grid gives a coherent grid** whose base is the slice of the base: nothing
    stale travels (repaired slicer) -/
theorem slice_coh {B : Base} {g : State} (h : Coh B g) {idx : List Nat}
    (hidx : ∀ f ∈ idx, f < B.t.length) :
    ∃ g', g.slice idx = some g' ∧ Coh (B.slice idx) g' := by
  obtain ⟨g1, h1, c1, en1, fe1⟩ := getFE_coh h
  have hEN : getEN g1 = g1 := by unfold getEN; rw [en1]; rfl
  have hsrc : g1.src = { t := B.t, EN := B.EN, FE := B.FE } := by
    simp [State.src, c1.t, en1, fe1]
  unfold State.slice State.sliceWith
  rw [h1]
  simp only [Option.bind_eq_bind, Option.bind_some, hEN, Option.pure_def, Bool.false_eq_true, if_false]
  refine ⟨_, rfl, ?_⟩
  rw [hsrc]
  have hnpf : optIs (g1.npf.map (fun N => idx.map (fun f => N.getD f 0))) (B.slice idx).N := by
    rcases c1.npf with hn | hn
    · left; rw [hn]; rfl
    · right
      rw [hn]
      simp only [Option.map_some, Option.some.injEq, Base.N, Base.slice, sliceFaces, nNodesPerFace,
        List.map_map]
      apply List.map_congr_left
      intro f hf
      have hft := hidx f hf
      simp only [Function.comp]
      rw [nNodesRow_map (fun _ => remap_eq_fill_iff)]
      simp [List.getD, List.getElem?_map, List.getElem?_eq_getElem hft, rowAt]
  exact { w := c1.w, t := rfl, en := Or.inr rfl, fe := Or.inr rfl, npf := hnpf,
          nf := Or.inl rfl, ef := Or.inl rfl, ff := Or.inl rfl, holes := Or.inl rfl,
          ready := Or.inl ⟨rfl, rfl⟩ }

/-- **C09, histories.**  For every coherent source, EVERY history of requests on it before slicing
    and EVERY order of requests on the subset afterwards: nothing raises and the subset reports the
    tables determined by the sliced base alone. -/
theorem slice_history_independent {B : Base} {g : State} (h : Coh B g) {idx : List Nat}
    (hidx : ∀ f ∈ idx, f < B.t.length) (hist order : List Var) :
    ((runHist g hist).bind (fun g => g.slice idx)).bind (fun u => u.view order)
      = some (B.slice idx).view := by
  obtain ⟨g1, h1, c1⟩ := runHist_coh h hist
  obtain ⟨u, h2, c2⟩ := slice_coh c1 hidx
  rw [h1, Option.bind_some, h2, Option.bind_some]
  exact view_coh c2 order

theorem rowPairs_length (r : List Int) : (rowPairs r).length = r.length := by
  unfold rowPairs closeRow
  simp

theorem flatten_length_const (T : Table) (w : Nat) (h : ∀ r ∈ T, r.length = w) :
    T.flatten.length = T.length * w := by
  induction T with
  | nil => simp
  | cons r T ih =>
    rw [List.flatten_cons, List.length_append, h r (by simp), ih (fun r hr => h r (by simp [hr]))]
    simp [Nat.succ_mul, Nat.add_comm]

/-- a freshly constructed grid (no derived variable yet) with rectangular faces is coherent -/
theorem coh_fresh (w : Nat) (t : Table) (hw : ∀ r ∈ t, r.length = w) :
    Coh { w := w, t := t, EN := edges t, FE := reshape w (faceEdges t).flatten } { w := w, t := t } := by
  refine { w := rfl, t := rfl, en := Or.inl rfl, fe := Or.inl rfl, npf := Or.inl rfl, nf := Or.inl rfl,
           ef := Or.inl rfl, ff := Or.inl rfl, holes := Or.inl rfl,
           ready := Or.inr (Or.inl ⟨rfl, rfl, rfl, ?_, Or.inl rfl⟩) }
  have : (faceEdges t).length = t.length := by simp [faceEdges]
  rw [← this]
  apply flatten_length_const
  intro r hr
  unfold faceEdges at hr
  rcases List.mem_map.mp hr with ⟨r0, hr0, rfl⟩
  rw [List.length_map, rowPairs_length, hw r0 hr0]

/-- a grid that ships its own edge tables is coherent with them -/
theorem coh_supplied (w : Nat) (t : Table) (EN : List (Int × Int)) (FE : Table) :
    Coh { w := w, t := t, EN := EN, FE := FE } { w := w, t := t, en := some EN, fe := some FE } :=
  { w := rfl, t := rfl, en := Or.inr rfl, fe := Or.inr rfl, npf := Or.inl rfl, nf := Or.inl rfl,
    ef := Or.inl rfl, ff := Or.inl rfl, holes := Or.inl rfl, ready := Or.inl ⟨rfl, rfl⟩ }

/-- the incidence tables the subset reports are C03's builders run on the subset's own tables, so
    C03's theorem applies whenever its precondition holds for the subset (the precondition is
    evaluated by the driver on every generated case) -/
theorem subset_incidence (B : Base) (idx : List Nat)
    (hpre : Incidence.Pre (nNodeOf (B.slice idx).t) (B.slice idx).t (B.slice idx).FE (B.slice idx).N
      (B.slice idx).EN.length) :
    Incidence.Spec (nNodeOf (B.slice idx).t) (B.slice idx).t (B.slice idx).FE (B.slice idx).N
      (B.slice idx).EN.length
      { nodeFace := (B.slice idx).view.nf, edgeFace := (B.slice idx).view.ef,
        faceFace := (B.slice idx).view.ff, holes := (B.slice idx).view.holes } := by
  have := C03.build_meets_spec (w := (B.slice idx).w) hpre
  exact this

/-! ## 7b. node / edge selections end to end -/

theorem nodup_map_toNat {l : List Int} (hn : l.Nodup) (h0 : ∀ x ∈ l, 0 ≤ x) : (l.map Int.toNat).Nodup := by
  unfold List.Nodup at hn ⊢
  rw [List.pairwise_map]
  refine List.Pairwise.imp_of_mem ?_ hn
  intro a b ha hb hab heq
  apply hab
  have := h0 a ha
  have := h0 b hb
  omega

/-- the faces touching the selected nodes form a valid duplicate-free request, so everything
    proved for face selections holds for node selections -/
theorem node_selection_pre {n w : Nat} {s : Src} {NF : Table} {ind : List Nat}
    (hstd : StdForm n w s.t) (hspec : Edges.Spec s.t w ⟨s.EN, s.FE, nNodesPerFace s.t⟩)
    (hNF : Incidence.NodeFaceOK n s.t NF) (hind : ∀ v ∈ ind, v < n) :
    Pre n w s ((facesOfNodes NF ind).map Int.toNat) := by
  have hv := nodes_faces_valid hNF hind
  refine ⟨hstd, hspec, ?_, nodup_map_toNat (nodup_sel _) (fun x hx => (hv x hx).1)⟩
  intro f hf
  rcases List.mem_map.mp hf with ⟨x, hx, rfl⟩
  have := hv x hx
  omega

theorem slice_nodes_meets_spec {n w : Nat} {s : Src} {NF : Table} {ind : List Nat}
    (hstd : StdForm n w s.t) (hspec : Edges.Spec s.t w ⟨s.EN, s.FE, nNodesPerFace s.t⟩)
    (hNF : Incidence.NodeFaceOK n s.t NF) (hind : ∀ v ∈ ind, v < n) :
    Slice.Spec s w ((facesOfNodes NF ind).map Int.toNat) (sliceNodes s NF ind).obs :=
  slice_meets_spec (node_selection_pre hstd hspec hNF hind)

theorem edges_faces_valid {FE : Table} {N : List Nat} {nEdge : Nat} {EF : List (Int × Int)}
    (hEF : Incidence.EdgeFaceOK FE N nEdge EF) {ind : List Nat} (hind : ∀ e ∈ ind, e < nEdge) :
    ∀ x ∈ facesOfEdges EF ind, 0 ≤ x ∧ x < FE.length := by
  intro x hx
  obtain ⟨hg, hne⟩ := mem_sel.mp hx
  obtain ⟨e, he, hxr⟩ := mem_gather.mp hg
  have hen := hind e he
  rw [rowAt_pairRows (by rw [hEF.1]; exact hen)] at hxr
  rcases (hEF.2 e hen).2.2.1 x hxr with h | h
  · exact absurd h hne
  · exact h

theorem edge_selection_pre {n w : Nat} {s : Src} {EF : List (Int × Int)} {ind : List Nat}
    (hstd : StdForm n w s.t) (hspec : Edges.Spec s.t w ⟨s.EN, s.FE, nNodesPerFace s.t⟩)
    (hEF : Incidence.EdgeFaceOK s.FE (nNodesPerFace s.t) s.EN.length EF)
    (hind : ∀ e ∈ ind, e < s.EN.length) :
    Pre n w s ((facesOfEdges EF ind).map Int.toNat) := by
  have hv := edges_faces_valid hEF hind
  have hlen : s.FE.length = s.t.length := hspec.2.2.2.1.1
  refine ⟨hstd, hspec, ?_, nodup_map_toNat (nodup_sel _) (fun x hx => (hv x hx).1)⟩
  intro f hf
  rcases List.mem_map.mp hf with ⟨x, hx, rfl⟩
  have := hv x hx
  omega

theorem slice_edges_meets_spec {n w : Nat} {s : Src} {EF : List (Int × Int)} {ind : List Nat}
    (hstd : StdForm n w s.t) (hspec : Edges.Spec s.t w ⟨s.EN, s.FE, nNodesPerFace s.t⟩)
    (hEF : Incidence.EdgeFaceOK s.FE (nNodesPerFace s.t) s.EN.length EF)
    (hind : ∀ e ∈ ind, e < s.EN.length) :
    Slice.Spec s w ((facesOfEdges EF ind).map Int.toNat) (sliceEdges s EF ind).obs :=
  slice_meets_spec (edge_selection_pre hstd hspec hEF hind)

/-! ## 7c. the travelling edge tables ARE the tables a fresh construction on the subset would give -/

/-- two strictly sorted lists with the same members are equal -/
theorem sorted_ext {l1 l2 : List (Int × Int)} (h1 : SortedBy pairLt l1) (h2 : SortedBy pairLt l2)
    (hm : ∀ x, x ∈ l1 ↔ x ∈ l2) : l1 = l2 := by
  have ST := pairLt_strictTotal
  induction l1 generalizing l2 with
  | nil =>
    cases l2 with
    | nil => rfl
    | cons b l2 => exact absurd ((hm b).mpr (by simp)) (by simp)
  | cons a l1 ih =>
    cases l2 with
    | nil => exact absurd ((hm a).mp (by simp)) (by simp)
    | cons b l2 =>
      have p1 := List.pairwise_cons.mp h1
      have p2 := List.pairwise_cons.mp h2
      have hab : a = b := by
        rcases List.mem_cons.mp ((hm a).mp (by simp)) with h | h
        · exact h
        · rcases List.mem_cons.mp ((hm b).mpr (by simp)) with h' | h'
          · exact h'.symm
          · have x1 := p2.1 a h
            have x2 := p1.1 b h'
            have := ST.trans _ _ _ x2 x1
            rw [ST.irrefl] at this; cases this
      subst hab
      congr 1
      apply ih p1.2 p2.2
      intro x
      constructor
      · intro hx
        rcases List.mem_cons.mp ((hm x).mp (List.mem_cons_of_mem _ hx)) with h | h
        · have := p1.1 x hx; rw [h, ST.irrefl] at this; cases this
        · exact h
      · intro hx
        rcases List.mem_cons.mp ((hm x).mpr (List.mem_cons_of_mem _ hx)) with h | h
        · have := p2.1 x hx; rw [h, ST.irrefl] at this; cases this
        · exact h

theorem sorted_edges (t : Table) : SortedBy pairLt (edges t) := by
  unfold edges uniqAll uniqPair
  exact (sorted_sortUniqBy pairLt_strictTotal _).filter _

theorem sortPair_of_le {p : Int × Int} (h : p.1 ≤ p.2) : sortPair p = p := by
  unfold sortPair; rw [if_pos h]

theorem le_of_sortPair {p : Int × Int} (h : sortPair p = p) : p.1 ≤ p.2 := by
  unfold sortPair at h
  by_cases hp : p.1 ≤ p.2
  · exact hp
  · rw [if_neg hp] at h
    have : p.2 = p.1 := congrArg Prod.fst h
    omega

theorem remap_le {l : List Int} {a b : Int} (ha : a ∈ sel l) (hb : b ∈ sel l) (hab : a ≤ b) :
    remap (sel l) a ≤ remap (sel l) b := by
  rcases Int.lt_or_eq_of_le hab with h | h
  · exact Int.le_of_lt (remap_mono ha hb h)
  · rw [h]

theorem pairLt_remap {l : List Int} {p q : Int × Int} (hp : p.1 ∈ sel l ∧ p.2 ∈ sel l)
    (hq : q.1 ∈ sel l ∧ q.2 ∈ sel l) (h : pairLt p q = true) :
    pairLt (mapPair (remap (sel l)) p) (mapPair (remap (sel l)) q) = true := by
  simp only [pairLt, Bool.or_eq_true, Bool.and_eq_true, decide_eq_true_eq] at h ⊢
  rcases h with h | ⟨h1, h2⟩
  · left; exact remap_mono hp.1 hq.1 h
  · right
    refine ⟨by show remap _ p.1 = remap _ q.1; rw [h1], remap_mono hp.2 hq.2 h2⟩

section Fresh
variable {n w : Nat} {s : Src} {idx : List Nat}

/-- a selected edge is a valid row of the source's edge table -/
theorem edge_valid (h : Pre n w s idx) {e : Int} (he : e ∈ edgeSel s idx) :
    0 ≤ e ∧ ∃ hl : e.toNat < s.EN.length, edgeAt s.EN e = s.EN[e.toNat] := by
  obtain ⟨_, _, _, _, _, _, e0, he0, _⟩ := edge_slot h he
  obtain ⟨h0, hl, hg⟩ := getI?_some he0
  refine ⟨h0, hl, ?_⟩
  unfold edgeAt; rw [he0]
  have := List.getElem?_eq_getElem hl ▸ hg
  exact (Option.some.inj this).symm

theorem sub_EN_sorted (h : Pre n w s idx) (hb : s.EN = edges s.t) :
    SortedBy pairLt (sliceFaces s idx).EN := by
  show List.Pairwise _ ((edgeSel s idx).map _)
  rw [List.pairwise_map]
  refine List.Pairwise.imp_of_mem ?_ (sorted_sel (gather s.FE idx))
  intro a b ha hb' hab
  obtain ⟨a0, hal, hEa⟩ := edge_valid h ha
  obtain ⟨b0, hbl, hEb⟩ := edge_valid h hb'
  have hsrt : SortedBy pairLt s.EN := by rw [hb]; exact sorted_edges _
  have hlt : a.toNat < b.toNat := by omega
  have := List.pairwise_iff_getElem.mp hsrt _ _ hal hbl hlt
  rw [hEa, hEb]
  rw [← hEa] at this ⊢
  rw [← hEb] at this ⊢
  exact pairLt_remap (edge_nodes_selected h ha) (edge_nodes_selected h hb') this

theorem sub_EN_pairs_sorted (h : Pre n w s idx) (hb : s.EN = edges s.t) :
    ∀ x ∈ (sliceFaces s idx).EN, sortPair x = x := by
  intro x hx
  rcases List.mem_map.mp hx with ⟨e, he, rfl⟩
  obtain ⟨_, hl, hE⟩ := edge_valid h he
  have hsp : sortPair (edgeAt s.EN e) = edgeAt s.EN e := by
    rw [hE]
    have hm : s.EN[e.toNat] ∈ edges s.t := by rw [← hb]; exact List.getElem_mem hl
    obtain ⟨r, _, hs⟩ := C02.edge_is_seg h.1 _ hm
    exact rowSegs_sorted r _ hs
  obtain ⟨h1, h2⟩ := edge_nodes_selected h he
  exact sortPair_of_le (remap_le h1 h2 (le_of_sortPair hsp))

/-- for a source whose edges were derived by uxarray, the subset's re-indexed
    `edge_node_connectivity` is exactly the table `_build_edge_node_connectivity` gives on the
    subset's faces — same rows, same order -/
theorem sub_EN_eq_fresh (h : Pre n w s idx) (hb : s.EN = edges s.t) :
    (sliceFaces s idx).EN = edges (sliceFaces s idx).t := by
  apply sorted_ext (sub_EN_sorted h hb) (sorted_edges _)
  intro x
  have hstd := slice_std h
  constructor
  · intro hx
    obtain ⟨_, _, r', hr', hseg⟩ := sub_edges_sound h x hx
    rw [sub_EN_pairs_sorted h hb x hx] at hseg
    exact C02.seg_is_edge hstd r' hr' x hseg
  · intro hx
    obtain ⟨r', hr', hseg⟩ := C02.edge_is_seg hstd x hx
    have := sub_edges_complete h r' hr' x hseg
    rcases List.mem_map.mp this with ⟨y, hy, hyx⟩
    rw [sub_EN_pairs_sorted h hb y hy] at hyx
    rw [← hyx]; exact hy

/-- a face-edge table is determined by the edge table it points into -/
theorem faceEdges_unique {t : Table} {w : Nat} {E : List (Int × Int)} {F1 F2 : Table}
    (hE : EdgesOnce E) (h1 : FaceEdgesOK t w E F1) (h2 : FaceEdgesOK t w E F2) : F1 = F2 := by
  apply List.ext_getElem
  · rw [h1.1, h2.1]
  · intro i hi1 hi2
    have hit : i < t.length := by rw [← h1.1]; exact hi1
    obtain ⟨l1, s1⟩ := h1.2 i hit
    obtain ⟨l2, s2⟩ := h2.2 i hit
    rw [rowAt_lt hi1] at l1 s1
    rw [rowAt_lt hi2] at l2 s2
    apply List.ext_getElem
    · rw [l1, l2]
    · intro j hj1 hj2
      have hjw : j < w := by omega
      have a1 := s1 j hjw
      have a2 := s2 j hjw
      have e1 : entry F1[i] j = F1[i][j] := by unfold entry; exact getD_lt FILL hj1
      have e2 : entry F2[i] j = F2[i][j] := by unfold entry; exact getD_lt FILL hj2
      rw [e1] at a1
      rw [e2] at a2
      split at a1
      · rename_i hk
        rw [if_pos hk] at a2
        obtain ⟨sg1, hsg1, x1, hx1, hs1⟩ := a1
        obtain ⟨sg2, hsg2, x2, hx2, hs2⟩ := a2
        have hsg : sg1 = sg2 := by
          have : some sg1 = some sg2 := by rw [← hsg1, ← hsg2]
          exact Option.some.inj this
        obtain ⟨p0, pl, pg⟩ := getI?_some hx1
        obtain ⟨q0, ql, qg⟩ := getI?_some hx2
        have hl1 : (F1[i][j]).toNat < (E.map sortPair).length := by simpa using pl
        have hl2 : (F2[i][j]).toNat < (E.map sortPair).length := by simpa using ql
        have v1 : (E.map sortPair)[(F1[i][j]).toNat] = sg1 := by
          rw [List.getElem_map, ← hs1]; congr 1
          have := List.getElem?_eq_getElem pl ▸ pg
          exact Option.some.inj this
        have v2 : (E.map sortPair)[(F2[i][j]).toNat] = sg2 := by
          rw [List.getElem_map, ← hs2]; congr 1
          have := List.getElem?_eq_getElem ql ▸ qg
          exact Option.some.inj this
        have := getElem_inj_of_nodup hE hl1 hl2 (by rw [v1, v2, hsg])
        omega
      · rename_i hk
        rw [if_neg hk] at a2
        rw [a1, a2]

/-- … and so is its re-indexed `face_edge_connectivity`: slicing commutes with edge construction -/
theorem sub_FE_eq_fresh (h : Pre n w s idx) (hb : s.EN = edges s.t) :
    (sliceFaces s idx).FE = faceEdges (sliceFaces s idx).t := by
  have hstd := slice_std h
  have hE := sub_EN_eq_fresh h hb
  refine faceEdges_unique (E := edges (sliceFaces s idx).t) (C02.edges_once hstd) ?_ (C02.faceEdges_ok hstd)
  rw [← hE]; exact sub_faceEdges_ok h

/-- **slicing commutes with edge construction**: whether the edges are carried over from the source
    or derived afresh on the subset, the subset has the same edge tables -/
theorem slice_eq_fresh (h : Pre n w s idx) (hb : s.EN = edges s.t) :
    (⟨(sliceFaces s idx).EN, (sliceFaces s idx).FE, nNodesPerFace (sliceFaces s idx).t⟩ : Edges.Out)
      = Edges.build (sliceFaces s idx).t := by
  unfold Edges.build
  rw [← sub_EN_eq_fresh h hb, ← sub_FE_eq_fresh h hb]

end Fresh

/-! ## 7d. end to end for a freshly constructed grid -/

theorem flatten_drop (T : Table) (w : Nat) (h : ∀ r ∈ T, r.length = w) (i : Nat) :
    T.flatten.drop (i * w) = (T.drop i).flatten := by
  induction T generalizing i with
  | nil => simp
  | cons r T ih =>
    cases i with
    | zero => simp
    | succ i =>
      have hr : r.length = w := h r (by simp)
      have : (i + 1) * w = r.length + i * w := by rw [hr, Nat.succ_mul, Nat.add_comm]
      rw [List.flatten_cons, this, List.drop_append, List.drop_succ_cons]
      have e1 : List.drop (r.length + i * w) r = [] := List.drop_eq_nil_of_le (by omega)
      have e2 : r.length + i * w - r.length = i * w := by omega
      rw [e1, e2, List.nil_append]
      exact ih (fun r hr => h r (by simp [hr])) i

/-- `inverse_indices.reshape(n_face, w)` of the flattened table gives the table back -/
theorem reshape_flatten (T : Table) (w : Nat) (hw : T ≠ [] → 0 < w) (h : ∀ r ∈ T, r.length = w) :
    reshape w T.flatten = T := by
  unfold reshape
  rw [flatten_length_const T w h]
  by_cases hT : T = []
  · subst hT; simp
  · have hw' := hw hT
    rw [Nat.mul_div_cancel _ hw']
    apply List.ext_getElem
    · simp
    · intro i h1 h2
      simp only [List.getElem_map, List.getElem_range]
      rw [flatten_drop T w h i]
      have hd : T.drop i = T[i] :: T.drop (i + 1) := by
        rw [List.drop_eq_getElem_cons h2]
      rw [hd, List.flatten_cons]
      have : (T[i]).length = w := h _ (List.getElem_mem h2)
      rw [List.take_append_of_le_length (by omega), List.take_of_length_le (by omega)]

theorem faceEdges_rows (t : Table) (w : Nat) (hw : ∀ r ∈ t, r.length = w) :
    ∀ r ∈ faceEdges t, r.length = w := by
  intro r hr
  unfold faceEdges at hr
  rcases List.mem_map.mp hr with ⟨r0, hr0, rfl⟩
  rw [List.length_map, rowPairs_length, hw r0 hr0]

/-- **C09 for a grid built from its faces, end to end**: for EVERY standard-form face table, EVERY
    history of requests before slicing, EVERY valid duplicate-free face selection and EVERY order of
    requests afterwards, nothing raises, the subset reports the tables of the sliced base, and those
    tables meet the specification (exact restriction + C02 on the subset) -/
theorem built_grid_end_to_end {n w : Nat} {t : Table} (hstd : StdForm n w t) {idx : List Nat}
    (hidx : ∀ f ∈ idx, f < t.length) (hnd : idx.Nodup) (hist order : List Var) :
    ∃ v, ((runHist { w := w, t := t } hist).bind (fun g => g.slice idx)).bind (fun u => u.view order) = some v ∧
      v.en = (sliceFaces ⟨t, edges t, faceEdges t⟩ idx).EN ∧
      v.fe = (sliceFaces ⟨t, edges t, faceEdges t⟩ idx).FE ∧
      v.npf = nNodesPerFace (sliceFaces ⟨t, edges t, faceEdges t⟩ idx).t ∧
      Slice.Spec ⟨t, edges t, faceEdges t⟩ w idx (sliceFaces ⟨t, edges t, faceEdges t⟩ idx).obs ∧
      (⟨v.en, v.fe, v.npf⟩ : Edges.Out) = Edges.build (sliceFaces ⟨t, edges t, faceEdges t⟩ idx).t := by
  have hrows : ∀ r ∈ t, r.length = w := fun r hr => (hstd r hr).1
  have hw : faceEdges t ≠ [] → 0 < w := by
    intro hne
    cases t with
    | nil => simp [faceEdges] at hne
    | cons r t =>
      have hs := hstd r (by simp)
      have h2 : (faceOf r).length ≤ r.length := length_takeWhile_le' _ _
      have h3 := hs.1
      have h4 := hs.2.1
      omega
  have hresh : reshape w (faceEdges t).flatten = faceEdges t :=
    reshape_flatten _ w hw (faceEdges_rows t w hrows)
  have hcoh := coh_fresh w t hrows
  have hpre : Pre n w ⟨t, edges t, faceEdges t⟩ idx :=
    ⟨hstd, C02.build_meets_spec hstd, hidx, hnd⟩
  refine ⟨_, slice_history_independent hcoh hidx hist order, ?_, ?_, rfl, slice_meets_spec hpre, ?_⟩
  · simp [Base.view, Base.slice, hresh]
  · simp [Base.view, Base.slice, hresh]
  · have := slice_eq_fresh hpre rfl
    simp only [Base.view, Base.slice, Base.N, hresh]
    exact this

/-! ## 7e. the exact clause the driver evaluates on the implementation's doubles -/

theorem strictlyOpposite_iff {K : Type} [Field K] [LinearOrder K] [IsStrictOrderedRing K] (c : K) (z : K × K) :
    strictlyOpposite c z = true ↔ (z.1 < c ∧ c < z.2) ∨ (z.2 < c ∧ c < z.1) := by
  simp [strictlyOpposite]

/-- a node exactly on the parallel is on neither side: such an edge is not crossing -/
theorem on_parallel_not_crossing {K : Type} [Field K] [LinearOrder K] [IsStrictOrderedRing K] (c : K) (z : K × K)
    (h : z.1 = c ∨ z.2 = c) : crosses c z = false := by
  cases hc : crosses c z with
  | false => rfl
  | true =>
    rcases (crosses_iff c z).mp hc with ⟨h1, h2⟩ | ⟨h1, h2⟩ <;> rcases h with h | h <;>
      first
      | (rw [h] at h1; exact absurd h1 (lt_irrefl _))
      | (rw [h] at h2; exact absurd h2 (lt_irrefl _))

theorem faceHas_iff {K : Type} [Field K] [LinearOrder K] [IsStrictOrderedRing K] (p : K × K → Bool)
    (Z : List (K × K)) (FE : Table) (N : List Nat) (f : Nat) :
    faceHas p Z FE N f = true ↔
      ∃ e z, Int.ofNat e ∈ Incidence.faceEdgesOf FE N f ∧ Z[e]? = some z ∧ p z = true := by
  unfold faceHas edgesOfFace
  rw [List.any_eq_true]
  constructor
  · rintro ⟨e, he, hp⟩
    rcases List.mem_map.mp he with ⟨x, hx, rfl⟩
    obtain ⟨hx1, hx2⟩ := List.mem_filter.mp hx
    have h0 : 0 ≤ x := by simpa using hx2
    have hx' : Int.ofNat x.toNat = x := by simp [Int.toNat_of_nonneg h0]
    cases hz : Z[x.toNat]? with
    | none => rw [hz] at hp; cases hp
    | some z =>
      rw [hz] at hp
      exact ⟨x.toNat, z, by rw [hx']; exact hx1, hz, hp⟩
  · rintro ⟨e, z, he, hz, hp⟩
    refine ⟨e, List.mem_map.mpr ⟨Int.ofNat e, List.mem_filter.mpr ⟨he, by simp⟩, by simp⟩, ?_⟩
    rw [hz]; exact hp

/-- **the model of the scan meets the exact clause** (`CrossExact`, the predicate the driver decides
    on the implementation's face list whenever the compared doubles are the implementation's own): for
    every schedule of the parallel loop, with correct `edge_face_connectivity` -/
theorem facesAt_meets_crossExact {K : Type} [Field K] [LinearOrder K] [IsStrictOrderedRing K]
    (c : K) (Z : List (K × K)) {order : List Nat} {FE : Table} {N : List Nat} {EF : List (Int × Int)}
    (hEF : Incidence.EdgeFaceOK FE N Z.length EF) (h : order.Perm (List.range Z.length)) :
    CrossExact c Z FE N (facesAt c Z order EF) := by
  refine ⟨nodup_sel _, ?_, ?_⟩
  · intro f hf
    rw [crosssec_iff c Z hEF h f hf, faceHas_iff]
    constructor
    · rintro ⟨e, z, h1, h2, h3⟩; exact ⟨e, z, h1, h2, (strictlyOpposite_iff c z).mp h3⟩
    · rintro ⟨e, z, h1, h2, h3⟩; exact ⟨e, z, h1, h2, (strictlyOpposite_iff c z).mpr h3⟩
  · intro g hg
    have := edges_faces_valid hEF (crossingEdges_lt c Z order) g hg
    exact ⟨this.1, by omega⟩

/-- the exact clause is not vacuous: a triangle standing ON the parallel with its third corner above
    (edge on the parallel) and one touching it by a corner are NOT selected, a crossing triangle is -/
example : CrossExact (0 : Int) [(0, 0), (0, 5), (0, 5), (0, 5), (5, 5), (-3, 4), (4, 4), (4, -3)]
    [[0, 1, 2], [3, 4, 2], [5, 6, 7]] [3, 3, 3] [2] := by decide
example : ¬ CrossExact (0 : Int) [(0, 0), (0, 5), (0, 5), (0, 5), (5, 5), (-3, 4), (4, 4), (4, -3)]
    [[0, 1, 2], [3, 4, 2], [5, 6, 7]] [3, 3, 3] [0, 2] := by decide

/-! ## 7f. a variable that is NOT a per-element invariant: `edge_face_distances` -/

def Base.EFD (B : Base) : List (Option (Int × Int)) := efdOf B.EF

/-- a materialised `edge_face_distances` holds this grid's own value -/
def EfdOK (B : Base) (g : State) : Prop := optIs g.efd B.EFD

theorem getEN_efd (g : State) : (getEN g).efd = g.efd := by
  unfold getEN; split <;> simp [popEN]

theorem finishFE_efd {g g' : State} (h : finishFE g = some g') : g'.efd = g.efd := by
  unfold finishFE at h
  cases hinv : g.inv with
  | none => simp [hinv] at h
  | some v =>
    simp only [hinv] at h
    by_cases hl : v.length = g.t.length * g.w
    · rw [if_pos hl] at h; rw [← Option.some.inj h]
    · rw [if_neg hl] at h; cases h

theorem getFE_efd {g g' : State} (h : getFE g = some g') : g'.efd = g.efd := by
  unfold getFE at h
  by_cases hs : g.fe.isSome = true
  · rw [if_pos hs] at h; rw [← Option.some.inj h]
  · rw [if_neg hs] at h
    cases hen : g.en with
    | none =>
      cases hinv : g.inv <;> (simp only [hen, hinv] at h; exact (finishFE_efd h).trans rfl)
    | some E =>
      cases hinv : g.inv with
      | some v =>
        simp only [hen, hinv] at h
        exact finishFE_efd h
      | none =>
        simp only [hen, hinv] at h
        cases hl : lookupFE g.t E with
        | some F => simp only [hl] at h; rw [← Option.some.inj h]
        | none => simp only [hl] at h; exact (finishFE_efd h).trans rfl

theorem getNPF_efd (g : State) : (getNPF g).efd = g.efd := by
  unfold getNPF; split <;> rfl

theorem getNF_efd (g : State) : (getNF g).efd = g.efd := by
  unfold getNF; split <;> rfl

theorem getEF_efd {g g' : State} (h : getEF g = some g') : g'.efd = g.efd := by
  unfold getEF at h
  split at h
  · cases h; rfl
  · cases h1 : getFE g with
    | none => rw [h1] at h; cases h
    | some g1 =>
      rw [h1] at h
      simp only [Option.bind_eq_bind, Option.bind_some, Option.pure_def] at h
      cases h
      show (getNPF (getEN g1)).efd = g.efd
      rw [getNPF_efd, getEN_efd, getFE_efd h1]

theorem getFF_efd {g g' : State} (h : getFF g = some g') : g'.efd = g.efd := by
  unfold getFF at h
  split at h
  · cases h; rfl
  · cases h1 : getEF g with
    | none => rw [h1] at h; cases h
    | some g1 =>
      rw [h1] at h
      simp only [Option.bind_eq_bind, Option.bind_some, Option.pure_def] at h
      rw [← Option.some.inj h]
      have := getEF_efd h1
      exact this

theorem getHoles_efd {g g' : State} (h : getHoles g = some g') : g'.efd = g.efd := by
  unfold getHoles at h
  split at h
  · cases h; rfl
  · cases h1 : getEF g with
    | none => rw [h1] at h; cases h
    | some g1 =>
      rw [h1] at h
      simp only [Option.bind_eq_bind, Option.bind_some, Option.pure_def] at h
      rw [← Option.some.inj h]
      have := getEF_efd h1
      exact this

theorem getEFD_ok {B : Base} {g : State} (h : Coh B g) (he : EfdOK B g) :
    ∃ g', getEFD g = some g' ∧ Coh B g' ∧ g'.efd = some B.EFD := by
  unfold getEFD
  by_cases hs : g.efd.isSome = true
  · rw [if_pos hs]; exact ⟨g, rfl, h, optIs_some he hs⟩
  · rw [if_neg hs]
    obtain ⟨g1, hg1, c1, ef1⟩ := getEF_coh h
    simp only [hg1, Option.bind_eq_bind, Option.bind_some, Option.pure_def]
    refine ⟨_, rfl, { w := c1.w, t := c1.t, en := c1.en, fe := c1.fe, npf := c1.npf, nf := c1.nf,
                      ef := c1.ef, ff := c1.ff, holes := c1.holes, ready := c1.ready }, ?_⟩
    show some (efdOf (g1.ef.getD [])) = some B.EFD
    rw [ef1]; rfl

/-- every request keeps `edge_face_distances` coherent -/
theorem request_efd {B : Base} {g g' : State} (h : Coh B g) (he : EfdOK B g) (v : Var)
    (hr : request g v = some g') : EfdOK B g' := by
  unfold EfdOK at he ⊢
  cases v with
  | edgeNode => cases hr; rw [getEN_efd]; exact he
  | faceEdge => rw [getFE_efd hr]; exact he
  | nPerFace => cases hr; rw [getNPF_efd]; exact he
  | nodeFace => cases hr; rw [getNF_efd]; exact he
  | edgeFace => rw [getEF_efd hr]; exact he
  | faceFace => rw [getFF_efd hr]; exact he
  | holes => rw [getHoles_efd hr]; exact he
  | edgeFaceDist =>
    obtain ⟨g2, h2, _, e2⟩ := getEFD_ok h he
    have : g' = g2 := by
      have : request g .edgeFaceDist = getEFD g := rfl
      rw [this, h2] at hr; exact (Option.some.inj hr).symm
    rw [this, e2]; exact Or.inr rfl
  | chunk => rw [← Option.some.inj hr]; exact he

theorem runHist_efd {B : Base} {g : State} (h : Coh B g) (he : EfdOK B g) (hist : List Var) :
    ∃ g', runHist g hist = some g' ∧ Coh B g' ∧ EfdOK B g' := by
  induction hist generalizing g with
  | nil => exact ⟨g, rfl, h, he⟩
  | cons v vs ih =>
    obtain ⟨g1, h1, c1⟩ := request_coh h v
    obtain ⟨g2, h2, c2, e2⟩ := ih c1 (request_efd h he v h1)
    exact ⟨g2, by simp [runHist, h1, h2], c2, e2⟩

/-- the decidable transport condition: the source's distances, masked to the edges whose two faces were
    both selected and renumbered, ARE the distances the subset derives from its own
    `edge_face_connectivity` .  It is the hypothesis of
    `efd_history_independent`; `efd_transport` / `efdTransport_of_pre` (section 7g) PROVE it from C03's
    specification of the source's and the subset's edge-face tables when no face lists an edge twice, giving
    `efd_history_independent_of_pre`.  The driver still evaluates it on every generated case
    (`C09.efdtransport`) as a correspondence check of the model. -/
def EFDTransport (B : Base) (idx : List Nat) : Prop :=
  travelEFD true idx (edgeSel { t := B.t, EN := B.EN, FE := B.FE } idx) B.EFD = (B.slice idx).EFD

instance (B : Base) (idx : List Nat) : Decidable (EFDTransport B idx) := by
  unfold EFDTransport; infer_instance

theorem slice_efd {B : Base} {g : State} (h : Coh B g) (he : EfdOK B g) {idx : List Nat}
    (hidx : ∀ f ∈ idx, f < B.t.length) (hT : EFDTransport B idx) :
    ∃ g', g.slice idx = some g' ∧ Coh (B.slice idx) g' ∧ EfdOK (B.slice idx) g' := by
  obtain ⟨g', hs, c'⟩ := slice_coh h hidx
  refine ⟨g', hs, c', ?_⟩
  obtain ⟨g1, h1, c1, en1, fe1⟩ := getFE_coh h
  have hEN : getEN g1 = g1 := by unfold getEN; rw [en1]; rfl
  have hsrc : g1.src = { t := B.t, EN := B.EN, FE := B.FE } := by simp [State.src, c1.t, en1, fe1]
  have he1 : optIs g1.efd B.EFD := by rw [getFE_efd h1]; exact he
  unfold State.slice State.sliceWith at hs
  rw [h1] at hs
  simp only [Option.bind_eq_bind, Option.bind_some, hEN, Option.pure_def, Bool.false_eq_true, if_false,
    Bool.not_false] at hs
  have hg' := Option.some.inj hs
  unfold EfdOK
  rw [← hg']
  show optIs (g1.efd.map (travelEFD true idx (sliceFaces g1.src idx).edgeIdx)) (B.slice idx).EFD
  rw [hsrc]
  rcases he1 with hn | hn
  · left; rw [hn]; rfl
  · right; rw [hn]
    show some (travelEFD true idx _ B.EFD) = some (B.slice idx).EFD
    exact congrArg some hT

/-- **C09, histories, for the neighbour-dependent variable**: whatever was requested on the source before
    slicing (in particular: `edge_face_distances` itself or not) and on the subset afterwards, the subset
    reports the distances it derives from its OWN edge-face table -/
theorem efd_history_independent {B : Base} {g : State} (h : Coh B g) (he : EfdOK B g) {idx : List Nat}
    (hidx : ∀ f ∈ idx, f < B.t.length) (hT : EFDTransport B idx) (hist order : List Var) :
    ((runHist g hist).bind (fun g => g.slice idx)).bind (fun u => u.viewEFD order)
      = some (B.slice idx).EFD := by
  obtain ⟨g1, h1, c1, e1⟩ := runHist_efd h he hist
  obtain ⟨u, h2, c2, e2⟩ := slice_efd c1 e1 hidx hT
  obtain ⟨u1, h3, c3, e3⟩ := runHist_efd c2 e2 order
  obtain ⟨u2, h4, _, e4⟩ := getEFD_ok c3 e3
  rw [h1, Option.bind_some, h2, Option.bind_some]
  have : request u1 .edgeFaceDist = getEFD u1 := rfl
  simp only [State.viewEFD, h3, Option.bind_eq_bind, Option.bind_some, this, h4, Option.pure_def, e4,
    Option.getD_some]

/-! ## 7g. `EFDTransport` from C03's specification of both edge-face tables -/

theorem idxOf_getElem_nodup {l : List Nat} (hn : l.Nodup) {i : Nat} (hi : i < l.length) :
    l.idxOf l[i] = i := by
  have hm : l[i] ∈ l := List.getElem_mem hi
  have hlt := List.idxOf_lt_length_iff.mpr hm
  exact getElem_inj_of_nodup hn hlt hi (List.getElem_idxOf hlt)

theorem idxOf_getElem_nodupI {l : List Int} (hn : l.Nodup) {i : Nat} (hi : i < l.length) :
    l.idxOf l[i] = i := by
  have hm : l[i] ∈ l := List.getElem_mem hi
  have hlt := List.idxOf_lt_length_iff.mpr hm
  exact getElem_inj_of_nodup hn hlt hi (List.getElem_idxOf hlt)

theorem renF_ofNat {idx : List Nat} (hn : idx.Nodup) {i : Nat} (hi : i < idx.length) :
    renF idx (Int.ofNat idx[i]) = Int.ofNat i := by
  unfold renF
  have : (0 : Int) ≤ Int.ofNat idx[i] ∧ (Int.ofNat idx[i]).toNat ∈ idx := by
    refine ⟨Int.natCast_nonneg _, ?_⟩
    simp
  rw [if_pos this]
  simp [idxOf_getElem_nodup hn hi]

theorem selectedF_iff {idx : List Nat} {x : Int} :
    selectedF idx x = true ↔ ∃ i, ∃ hi : i < idx.length, x = Int.ofNat idx[i] := by
  unfold selectedF
  rw [decide_eq_true_iff]
  constructor
  · rintro ⟨h0, hm⟩
    obtain ⟨i, hi, he⟩ := List.getElem_of_mem hm
    exact ⟨i, hi, by rw [he]; simp [Int.toNat_of_nonneg h0]⟩
  · rintro ⟨i, hi, rfl⟩
    exact ⟨Int.natCast_nonneg _, by simp⟩

section Transport
variable {n w : Nat} {s : Src} {idx : List Nat}

/-- the real edges of subset face `i` are the renumbered real edges of source face `idx[i]` -/
theorem faceEdgesOf_sub (h : Pre n w s idx) {i : Nat} (hi : i < idx.length) :
    Incidence.faceEdgesOf (sliceFaces s idx).FE (nNodesPerFace (sliceFaces s idx).t) i
      = (Incidence.faceEdgesOf s.FE (nNodesPerFace s.t) idx[i]).map (remap (edgeSel s idx)) := by
  unfold Incidence.faceEdgesOf
  have hft : idx[i] < s.t.length := h.2.2.1 _ (List.getElem_mem hi)
  have hrow : rowAt (sliceFaces s idx).FE i = (rowAt s.FE idx[i]).map (remap (edgeSel s idx)) :=
    rowAt_map_idx idx _ i hi
  have hN : (nNodesPerFace (sliceFaces s idx).t).getD i 0 = (nNodesPerFace s.t).getD idx[i] 0 := by
    simp only [nNodesPerFace, sliceFaces, List.map_map, List.getD, List.getElem?_map,
      List.getElem?_eq_getElem hi, List.getElem?_eq_getElem hft, Option.map_some, Option.getD_some,
      Function.comp]
    rw [nNodesRow_map (fun _ => remap_eq_fill_iff)]
    simp [rowAt, List.getD, List.getElem?_eq_getElem hft]
  rw [hrow, hN, List.map_take]

/-- edge `k` of the subset belongs to subset face `i` iff its source edge belongs to source face `idx[i]` -/
theorem mem_faceEdgesOf_sub (h : Pre n w s idx) {i k : Nat} (hi : i < idx.length)
    (hk : k < (edgeSel s idx).length) :
    Int.ofNat k ∈ Incidence.faceEdgesOf (sliceFaces s idx).FE (nNodesPerFace (sliceFaces s idx).t) i ↔
      (edgeSel s idx)[k] ∈ Incidence.faceEdgesOf s.FE (nNodesPerFace s.t) idx[i] := by
  rw [faceEdgesOf_sub h hi]
  have hek : (edgeSel s idx)[k] ∈ edgeSel s idx := List.getElem_mem hk
  have hne := (mem_sel.mp hek).2
  have hk' : remap (edgeSel s idx) (edgeSel s idx)[k] = Int.ofNat k := by
    have hnd' : (edgeSel s idx).Nodup := nodup_sel _
    rw [remap_of_ne hne, idxOf_getElem_nodupI hnd' hk]
  constructor
  · intro hm
    rcases List.mem_map.mp hm with ⟨x, hx, hxe⟩
    have hxrow : x ∈ rowAt s.FE idx[i] := by
      unfold Incidence.faceEdgesOf at hx
      exact (List.take_sublist _ _).subset hx
    have hxs := row_in_edgeSel (s := s) (List.getElem_mem hi) x hxrow
    have : x = (edgeSel s idx)[k] := remap_inj hxs (Or.inr hek) (by rw [hxe, hk'])
    rw [← this]; exact hx
  · intro hm
    exact List.mem_map.mpr ⟨_, hm, hk'⟩

/-- **`EFDTransport` follows from C03's specification of the source's and of the subset's
    `edge_face_connectivity`, when the two faces of an edge are distinct**: the source's distances, kept
    only where both faces were selected and renumbered, are what the subset derives from its own table -/
theorem efd_transport (h : Pre n w s idx) {EF EF' : List (Int × Int)}
    (hEF : Incidence.EdgeFaceOK s.FE (nNodesPerFace s.t) s.EN.length EF)
    (hEF' : Incidence.EdgeFaceOK (sliceFaces s idx).FE (nNodesPerFace (sliceFaces s idx).t)
      (sliceFaces s idx).EN.length EF')
    (hD : ∀ p ∈ EF, p.1 ≠ p.2) (hD' : ∀ p ∈ EF', p.1 ≠ p.2) :
    travelEFD true idx (edgeSel s idx) (efdOf EF) = efdOf EF' := by
  have hnd := h.2.2.2
  have hlenEN' : (sliceFaces s idx).EN.length = (edgeSel s idx).length := by simp [sliceFaces]
  have hlenFE' : (sliceFaces s idx).FE.length = idx.length := by simp [sliceFaces]
  have hlenFE : s.FE.length = s.t.length := h.2.1.2.2.2.1.1
  apply List.ext_getElem
  · simp [travelEFD, efdOf, hEF'.1, hlenEN']
  · intro k hk1 hk2
    have hk : k < (edgeSel s idx).length := by simpa [travelEFD] using hk1
    have hek : (edgeSel s idx)[k] ∈ edgeSel s idx := List.getElem_mem hk
    obtain ⟨he0, hel, _⟩ := edge_valid h hek
    generalize hedef : (edgeSel s idx)[k] = e at hek he0 hel
    have helEF : e.toNat < EF.length := by rw [hEF.1]; exact hel
    have hkEF' : k < EF'.length := by rw [hEF'.1, hlenEN']; exact hk
    -- the two rows
    obtain ⟨hp1, _, hpv, hpm⟩ := hEF.2 e.toNat hel
    obtain ⟨hq1, _, hqv, hqm⟩ := hEF'.2 k (by rw [hlenEN']; exact hk)
    rw [getD_lt _ helEF] at hp1 hpv hpm
    rw [getD_lt _ hkEF'] at hq1 hqv hqm
    generalize hpdef : EF[e.toNat] = p at hp1 hpv hpm
    generalize hqdef : EF'[k] = q at hq1 hqv hqm
    have hpD : p.1 ≠ p.2 := by rw [← hpdef]; exact hD _ (List.getElem_mem helEF)
    have hqD : q.1 ≠ q.2 := by rw [← hqdef]; exact hD' _ (List.getElem_mem hkEF')
    have hofe : Int.ofNat e.toNat = e := by simp [Int.toNat_of_nonneg he0]
    -- membership transport
    have M : ∀ i (hi : i < idx.length),
        (Int.ofNat i = q.1 ∨ Int.ofNat i = q.2) ↔ (Int.ofNat idx[i] = p.1 ∨ Int.ofNat idx[i] = p.2) := by
      intro i hi
      have hft : idx[i] < s.t.length := h.2.2.1 _ (List.getElem_mem hi)
      rw [hqm i (by rw [hlenFE']; exact hi), mem_faceEdgesOf_sub h hi hk, hedef,
        hpm idx[i] (by rw [hlenFE]; exact hft), hofe]
    -- evaluate both sides
    have hL : (travelEFD true idx (edgeSel s idx) (efdOf EF))[k]
        = (if p.2 = FILL then none else
            if !(selectedF idx (sortPair p).1 && selectedF idx (sortPair p).2) then none
            else some (sortPair (renF idx (sortPair p).1, renF idx (sortPair p).2))) := by
      simp only [travelEFD, List.getElem_map, hedef]
      have : getI? (efdOf EF) e = some (if p.2 = FILL then none else some (sortPair p)) := by
        rw [← hofe, getI?_ofNat]
        simp [efdOf, List.getElem?_map, List.getElem?_eq_getElem helEF, hpdef]
      rw [this]
      by_cases hp2 : p.2 = FILL
      · simp [hp2]
      · simp [hp2]
    have hR : (efdOf EF')[k] = (if q.2 = FILL then none else some (sortPair q)) := by
      simp [efdOf, hqdef]
    rw [hL, hR]
    -- selected faces are positions in idx
    have selP : ∀ x, (x = p.1 ∨ x = p.2) → x ≠ FILL → selectedF idx x = true →
        ∃ i, ∃ hi : i < idx.length, x = Int.ofNat idx[i] := fun x _ _ hx => selectedF_iff.mp hx
    by_cases hq2 : q.2 = FILL
    · -- the subset's edge is a boundary edge: not both source faces can be selected
      rw [if_pos hq2]
      by_cases hp2 : p.2 = FILL
      · rw [if_pos hp2]
      · rw [if_neg hp2]
        have : ¬ (selectedF idx p.1 = true ∧ selectedF idx p.2 = true) := by
          rintro ⟨s1, s2⟩
          obtain ⟨i1, hi1, e1⟩ := selectedF_iff.mp s1
          obtain ⟨i2, hi2, e2⟩ := selectedF_iff.mp s2
          have m1 := (M i1 hi1).mpr (Or.inl e1.symm)
          have m2 := (M i2 hi2).mpr (Or.inr e2.symm)
          have f1 : Int.ofNat i1 = q.1 := by
            rcases m1 with m | m
            · exact m
            · rw [hq2] at m; exact absurd m (ofNat_ne_FILL i1)
          have f2 : Int.ofNat i2 = q.1 := by
            rcases m2 with m | m
            · exact m
            · rw [hq2] at m; exact absurd m (ofNat_ne_FILL i2)
          have : i1 = i2 := by
            have : Int.ofNat i1 = Int.ofNat i2 := by rw [f1, f2]
            exact Int.ofNat.inj this
          subst this
          exact hpD (by rw [e1, e2])
        have hsp : ¬ (selectedF idx (sortPair p).1 = true ∧ selectedF idx (sortPair p).2 = true) := by
          rcases sortPair_cases p with hc | hc
          · rw [hc]; exact this
          · rw [hc]; exact fun ⟨a, b⟩ => this ⟨b, a⟩
        have : (!(selectedF idx (sortPair p).1 && selectedF idx (sortPair p).2)) = true := by
          simp only [Bool.not_eq_true', Bool.and_eq_false_iff]
          by_cases ha : selectedF idx (sortPair p).1 = true
          · right
            cases hb : selectedF idx (sortPair p).2 with
            | false => rfl
            | true => exact absurd ⟨ha, hb⟩ hsp
          · left; simpa using ha
        rw [if_pos this]
    · -- the subset's edge has two faces i1 ≠ i2: they are the positions of the source edge's two faces
      rw [if_neg hq2]
      have v1 := hqv q.1 (by simp)
      have v2 := hqv q.2 (by simp)
      obtain ⟨a0, a1⟩ : 0 ≤ q.1 ∧ q.1 < (sliceFaces s idx).FE.length := by
        rcases v1 with v | v
        · exact absurd v hq1
        · exact v
      obtain ⟨b0, b1⟩ : 0 ≤ q.2 ∧ q.2 < (sliceFaces s idx).FE.length := by
        rcases v2 with v | v
        · exact absurd v hq2
        · exact v
      rw [hlenFE'] at a1 b1
      have hi1 : q.1.toNat < idx.length := by omega
      have hi2 : q.2.toNat < idx.length := by omega
      have c1 : Int.ofNat q.1.toNat = q.1 := by simp [Int.toNat_of_nonneg a0]
      have c2 : Int.ofNat q.2.toNat = q.2 := by simp [Int.toNat_of_nonneg b0]
      have m1 := (M _ hi1).mp (Or.inl c1)
      have m2 := (M _ hi2).mp (Or.inr c2)
      have hne12 : q.1.toNat ≠ q.2.toNat := by
        intro hh; apply hqD; rw [← c1, ← c2, hh]
      have hidxne : (Int.ofNat idx[q.1.toNat]) ≠ Int.ofNat idx[q.2.toNat] := by
        intro hh
        have := Int.ofNat.inj hh
        exact hne12 (getElem_inj_of_nodup hnd hi1 hi2 this)
      -- p = (idx[i1], idx[i2]) or swapped
      have hcase : (p.1 = Int.ofNat idx[q.1.toNat] ∧ p.2 = Int.ofNat idx[q.2.toNat]) ∨
          (p.1 = Int.ofNat idx[q.2.toNat] ∧ p.2 = Int.ofNat idx[q.1.toNat]) := by
        rcases m1 with m1 | m1 <;> rcases m2 with m2 | m2
        · exact absurd (m1.trans m2.symm) hidxne
        · exact Or.inl ⟨m1.symm, m2.symm⟩
        · exact Or.inr ⟨m2.symm, m1.symm⟩
        · exact absurd (m1.trans m2.symm) hidxne
      have r1 := renF_ofNat hnd hi1
      have r2 := renF_ofNat hnd hi2
      have s1 : selectedF idx (Int.ofNat idx[q.1.toNat]) = true := selectedF_iff.mpr ⟨_, hi1, rfl⟩
      have s2 : selectedF idx (Int.ofNat idx[q.2.toNat]) = true := selectedF_iff.mpr ⟨_, hi2, rfl⟩
      have hp2 : p.2 ≠ FILL := by
        rcases hcase with ⟨_, hh⟩ | ⟨_, hh⟩ <;> rw [hh] <;> exact ofNat_ne_FILL _
      rw [if_neg hp2]
      -- whatever the orientation of `p` and of its sorted form, the renumbered pair is `q` up to order
      have key : ∀ x y : Int, ((x = Int.ofNat idx[q.1.toNat] ∧ y = Int.ofNat idx[q.2.toNat]) ∨
          (x = Int.ofNat idx[q.2.toNat] ∧ y = Int.ofNat idx[q.1.toNat])) →
          (!(selectedF idx x && selectedF idx y)) = false ∧
          sortPair (renF idx x, renF idx y) = sortPair q := by
        intro x y hxy
        rcases hxy with ⟨hx, hy⟩ | ⟨hx, hy⟩
        · rw [hx, hy, s1, s2, r1, r2, c1, c2]; exact ⟨rfl, rfl⟩
        · rw [hx, hy, s1, s2, r1, r2, c1, c2]
          exact ⟨rfl, sortPair_swap q⟩
      have hsp : ((sortPair p).1 = Int.ofNat idx[q.1.toNat] ∧ (sortPair p).2 = Int.ofNat idx[q.2.toNat]) ∨
          ((sortPair p).1 = Int.ofNat idx[q.2.toNat] ∧ (sortPair p).2 = Int.ofNat idx[q.1.toNat]) := by
        rcases sortPair_cases p with hc | hc
        · rw [hc]; exact hcase
        · rw [hc]; exact hcase.symm.imp (fun ⟨a, b⟩ => ⟨b, a⟩) (fun ⟨a, b⟩ => ⟨b, a⟩)
      obtain ⟨k1, k2⟩ := key _ _ hsp
      rw [k1]
      simp only [Bool.false_eq_true, if_false]
      rw [k2]

end Transport

/-- the two faces listed for an edge are distinct (no face contains the same edge twice) -/
def DistinctFaces (EF : List (Int × Int)) : Prop := ∀ p ∈ EF, p.1 ≠ p.2

instance (EF : List (Int × Int)) : Decidable (DistinctFaces EF) := by unfold DistinctFaces; infer_instance

/-- `EFDTransport` is a theorem for every coherent source whose edge-face table and whose subset's
    edge-face table meet C03's precondition (every edge in one or two face slots) with distinct faces -/
theorem efdTransport_of_pre {n n' w : Nat} (B : Base) (idx : List Nat)
    (h : Pre n w { t := B.t, EN := B.EN, FE := B.FE } idx)
    (hP : Incidence.Pre n B.t B.FE B.N B.EN.length)
    (hP' : Incidence.Pre n' (B.slice idx).t (B.slice idx).FE (B.slice idx).N (B.slice idx).EN.length)
    (hD : DistinctFaces B.EF) (hD' : DistinctFaces (B.slice idx).EF) : EFDTransport B idx := by
  unfold EFDTransport Base.EFD
  exact efd_transport h (C03.edgeFace_ok hP) (C03.edgeFace_ok hP') hD hD'

/-- **C09, histories, `edge_face_distances`, without the run-time hypothesis**: for every coherent
    source (C02-correct edge tables, manifold: C03's precondition, for the source and for the subset; no
    face listing an edge twice), every request history before slicing and every request order afterwards,
    the subset reports the distances it derives from its own edge-face table -/
theorem efd_history_independent_of_pre {n n' w : Nat} {B : Base} {g : State} (hc : Coh B g) (he : EfdOK B g)
    {idx : List Nat} (h : Pre n w { t := B.t, EN := B.EN, FE := B.FE } idx)
    (hP : Incidence.Pre n B.t B.FE B.N B.EN.length)
    (hP' : Incidence.Pre n' (B.slice idx).t (B.slice idx).FE (B.slice idx).N (B.slice idx).EN.length)
    (hD : DistinctFaces B.EF) (hD' : DistinctFaces (B.slice idx).EF) (hist order : List Var) :
    ((runHist g hist).bind (fun g => g.slice idx)).bind (fun u => u.viewEFD order)
      = some (B.slice idx).EFD :=
  efd_history_independent hc he h.2.2.1 (efdTransport_of_pre B idx h hP hP' hD hD') hist order

/-! ## 7h. the backing of the source's arrays (numpy / dask after `Grid.chunk`) is not an input -/

/-- **backing**: `Grid.chunk(...)` is a history operation (`Var.chunk`, allowed at ANY position of the
    histories quantified over in `slice_history_independent`, `built_grid_end_to_end`,
    `efd_history_independent`), and a source that differs only in its backing gives the same subset tables -/
theorem slice_backing_irrelevant {B : Base} {g : State} (h : Coh B g) {idx : List Nat}
    (hidx : ∀ f ∈ idx, f < B.t.length) (b : Backing) (hist order : List Var) :
    ((runHist { g with backing := b } hist).bind (fun g => g.slice idx)).bind (fun u => u.view order)
      = ((runHist g hist).bind (fun g => g.slice idx)).bind (fun u => u.view order) := by
  rw [slice_history_independent (coh_backing h b) hidx, slice_history_independent h hidx]

/-- … and the same `edge_face_distances` -/
theorem efd_backing_irrelevant {B : Base} {g : State} (h : Coh B g) (he : EfdOK B g) {idx : List Nat}
    (hidx : ∀ f ∈ idx, f < B.t.length) (hT : EFDTransport B idx) (b : Backing) (hist order : List Var) :
    ((runHist { g with backing := b } hist).bind (fun g => g.slice idx)).bind (fun u => u.viewEFD order)
      = ((runHist g hist).bind (fun g => g.slice idx)).bind (fun u => u.viewEFD order) := by
  have he' : EfdOK B { g with backing := b } := he
  rw [efd_history_independent (coh_backing h b) he' hidx hT, efd_history_independent h he hidx hT]

/-! ## 7i. a source-supplied edge table is kept, row for row -/

/-- a grid that ships `edge_node_connectivity` only (rows in ANY order, each row in ANY orientation) is
    coherent with it and with the faces' edges looked up in it -/
theorem coh_supplied_en (w : Nat) (t : Table) (EN : List (Int × Int)) (FE : Table)
    (h : lookupFE t EN = some FE) :
    Coh { w := w, t := t, EN := EN, FE := FE } { w := w, t := t, en := some EN } :=
  { w := rfl, t := rfl, en := Or.inr rfl, fe := Or.inl rfl, npf := Or.inl rfl, nf := Or.inl rfl,
    ef := Or.inl rfl, ff := Or.inl rfl, holes := Or.inl rfl, ready := Or.inr (Or.inr ⟨rfl, rfl, rfl, h⟩) }

theorem getNF_en (g : State) : (getNF g).en = g.en := by unfold getNF; split <;> rfl

theorem getEF_en {B : Base} {g g' : State} (h : Coh B g) (hen : g.en = some B.EN)
    (hr : getEF g = some g') : g'.en = some B.EN := by
  unfold getEF at hr
  split at hr
  · rw [← Option.some.inj hr]; exact hen
  · obtain ⟨g1, hg1, c1, en1, _⟩ := getFE_coh h
    rw [hg1] at hr
    simp only [Option.bind_eq_bind, Option.bind_some, Option.pure_def] at hr
    rw [← Option.some.inj hr]
    show (getNPF (getEN g1)).en = some B.EN
    rw [(getNPF_coh (getEN_coh c1).1).2.2.1]
    exact (getEN_coh c1).2

/-- no request replaces an edge table that is there -/
theorem request_en_kept {B : Base} {g g' : State} (h : Coh B g) (hen : g.en = some B.EN) (v : Var)
    (hr : request g v = some g') : g'.en = some B.EN := by
  cases v with
  | edgeNode => cases hr; exact (getEN_coh h).2
  | faceEdge =>
    obtain ⟨g2, h2, _, e2, _⟩ := getFE_coh h
    have : request g .faceEdge = getFE g := rfl
    rw [this, h2] at hr; rw [← Option.some.inj hr]; exact e2
  | nPerFace => cases hr; rw [(getNPF_coh h).2.2.1]; exact hen
  | nodeFace => cases hr; rw [getNF_en]; exact hen
  | edgeFace => exact getEF_en h hen hr
  | faceFace =>
    have hr' : getFF g = some g' := hr
    unfold getFF at hr'
    split at hr'
    · rw [← Option.some.inj hr']; exact hen
    · cases h1 : getEF g with
      | none => rw [h1] at hr'; cases hr'
      | some g1 =>
        rw [h1] at hr'
        simp only [Option.bind_eq_bind, Option.bind_some, Option.pure_def] at hr'
        rw [← Option.some.inj hr']
        have := getEF_en h hen h1
        exact this
  | holes =>
    have hr' : getHoles g = some g' := hr
    unfold getHoles at hr'
    split at hr'
    · rw [← Option.some.inj hr']; exact hen
    · cases h1 : getEF g with
      | none => rw [h1] at hr'; cases hr'
      | some g1 =>
        rw [h1] at hr'
        simp only [Option.bind_eq_bind, Option.bind_some, Option.pure_def] at hr'
        rw [← Option.some.inj hr']
        have := getEF_en h hen h1
        exact this
  | edgeFaceDist =>
    have hr' : getEFD g = some g' := hr
    unfold getEFD at hr'
    split at hr'
    · rw [← Option.some.inj hr']; exact hen
    · cases h1 : getEF g with
      | none => rw [h1] at hr'; cases hr'
      | some g1 =>
        rw [h1] at hr'
        simp only [Option.bind_eq_bind, Option.bind_some, Option.pure_def] at hr'
        rw [← Option.some.inj hr']
        have := getEF_en h hen h1
        exact this
  | chunk => rw [← Option.some.inj hr]; exact hen

theorem runHist_en_kept {B : Base} {g : State} (h : Coh B g) (hen : g.en = some B.EN) (hist : List Var) :
    ∃ g', runHist g hist = some g' ∧ Coh B g' ∧ g'.en = some B.EN := by
  induction hist generalizing g with
  | nil => exact ⟨g, rfl, h, hen⟩
  | cons v vs ih =>
    obtain ⟨g1, h1, c1⟩ := request_coh h v
    obtain ⟨g2, h2, c2, e2⟩ := ih c1 (request_en_kept h hen v h1)
    exact ⟨g2, by simp [runHist, h1, h2], c2, e2⟩

/-- **the source's own edge table survives every selection**: for a coherent source that has an
    `edge_node_connectivity` (supplied in any row order and orientation, or derived), after ANY history of
    requests and after the read of `face_edge_connectivity` every slice starts with, the table is still the
    same list of rows, the faces' edges refer to ITS numbering, and so do the subset's recorded edge
    indices (they are `edgeSel` of exactly these tables) -/
theorem slice_keeps_supplied_edges {B : Base} {g : State} (h : Coh B g) (hen : g.en = some B.EN)
    (hist : List Var) :
    ∃ g1 g2, runHist g hist = some g1 ∧ getFE g1 = some g2 ∧ g2.en = some B.EN ∧ g2.fe = some B.FE ∧
      ∀ idx, (g1.slice idx).map (fun u => u.recd)
        = some (some ((sliceFaces ⟨B.t, B.EN, B.FE⟩ idx).nodeIdx, idx, (sliceFaces ⟨B.t, B.EN, B.FE⟩ idx).edgeIdx)) := by
  obtain ⟨g1, h1, c1, _⟩ := runHist_en_kept h hen hist
  obtain ⟨g2, h2, c2, e2, f2⟩ := getFE_coh c1
  refine ⟨g1, g2, h1, h2, e2, f2, ?_⟩
  intro idx
  have hEN : getEN g2 = g2 := by unfold getEN; rw [e2]; rfl
  have hsrc : g2.src = { t := B.t, EN := B.EN, FE := B.FE } := by simp [State.src, c2.t, e2, f2]
  unfold State.slice State.sliceWith
  rw [h2]
  simp only [Option.bind_eq_bind, Option.bind_some, hEN, Option.pure_def, Option.map_some, hsrc]
  rfl

/-! ## 7j. the latitude domain: the clause may be decided on the source's node latitudes -/

/-- `faceHas` only looks at the edges' value pairs through the predicate -/
theorem faceHas_map {K : Type} [Add K] [Sub K] [LT K] [DecidableLT K] (p : K × K → Bool) (F : K × K → K × K) (Z : List (K × K)) (FE : Table) (N : List Nat) (f : Nat) :
    faceHas p (Z.map F) FE N f = faceHas (fun z => p (F z)) Z FE N f := by
  unfold faceHas
  congr 1
  funext e
  rw [List.getElem?_map]
  cases Z[e]? <;> rfl

/-- **latitude domain ⇔ z domain.**  Let `f` preserve and reflect the strict order on a set `S` of values (the
    exact sine of an angle in degrees on [-90°, 90°]).  Then the cross-section clause decided on the node
    LATITUDES and the queried latitude is the clause decided on their images (`z = f lat`, `z_constant = f c`):
    a node whose latitude EQUALS the queried one is on neither side, whatever a grid derives for its `z`. -/
theorem crossExact_latitude_domain {K : Type} [Field K] [LinearOrder K] (f : K → K) (S : K → Prop)
    (hf : ∀ x y, S x → S y → (x < y ↔ f x < f y))
    (c : K) (hc : S c) (Z : List (K × K)) (hZ : ∀ z ∈ Z, S z.1 ∧ S z.2)
    (FE : Table) (N : List Nat) (faces : List Int) :
    CrossExact (f c) (Z.map (fun z => (f z.1, f z.2))) FE N faces ↔ CrossExact c Z FE N faces := by
  have key : ∀ g, faceHas (strictlyOpposite (f c)) (Z.map (fun z => (f z.1, f z.2))) FE N g
      = faceHas (strictlyOpposite c) Z FE N g := by
    intro g
    rw [faceHas_map]
    unfold faceHas
    refine List.any_congr rfl ?_
    intro e
    cases hz : Z[e]? with
    | none => rfl
    | some z =>
      have hm : z ∈ Z := List.mem_of_getElem? hz
      obtain ⟨s1, s2⟩ := hZ z hm
      simp only [strictlyOpposite]
      rw [← Bool.coe_iff_coe]
      simp only [Bool.or_eq_true, Bool.and_eq_true, decide_eq_true_eq]
      rw [← hf z.1 c s1 hc, ← hf c z.2 hc s2, ← hf z.2 c s2 hc, ← hf c z.1 hc s1]
  unfold CrossExact
  constructor
  · rintro ⟨h1, h2, h3⟩
    exact ⟨h1, fun g hg => by rw [← key g]; exact h2 g hg, h3⟩
  · rintro ⟨h1, h2, h3⟩
    exact ⟨h1, fun g hg => by rw [key g]; exact h2 g hg, h3⟩

/-! ## 8. /repo before the repair: proved counterexamples, and non-vacuity -/

/-- two triangles sharing the edge (1,2) -/
def t2 : Table := [[0, 1, 2], [2, 1, 3]]
def src2 : Src := { t := t2, EN := [(0, 1), (0, 2), (1, 2), (1, 3), (2, 3)], FE := [[0, 2, 1], [2, 3, 4]] }
def g2 : State := { w := 3, t := t2 }

/-- the hypotheses of the main theorems are satisfiable (a genuine sub-selection, a permutation
    of all faces, an unsorted selection with padding) -/
example : src2.EN = edges t2 ∧ src2.FE = faceEdges t2 := by decide
example : Pre 4 3 src2 [1] := by decide
example : Pre 4 3 src2 [1, 0] := by decide
example : Pre 6 4 { t := [[0, 1, 2, FILL], [2, 1, 3, 4], [4, 3, 5, FILL]],
                    EN := edges [[0, 1, 2, FILL], [2, 1, 3, 4], [4, 3, 5, FILL]],
                    FE := faceEdges [[0, 1, 2, FILL], [2, 1, 3, 4], [4, 3, 5, FILL]] } [2, 0] := by decide
/-- the subset of the second triangle: nodes 1,2,3 become 0,1,2, its three edges become 0,1,2 -/
example : sliceFaces src2 [1] =
    { nodeIdx := [1, 2, 3], faceIdx := [1], edgeIdx := [2, 3, 4], t := [[1, 0, 2]],
      EN := [(0, 1), (0, 2), (1, 2)], FE := [[0, 1, 2]] } := by decide
example : Slice.Spec src2 3 [1] (sliceFaces src2 [1]).obs := slice_meets_spec (n := 4) (by decide)
/-- the specification is not trivially true: a subset that keeps the source's numbering fails -/
example : ¬ Slice.Spec src2 3 [1]
    { nodeIdx := [1, 2, 3], faceIdx := [1], edgeIdx := [2, 3, 4], t := [[2, 1, 3]],
      EN := [(1, 2), (1, 3), (2, 3)], FE := [[2, 3, 4]], N := [3] } := by decide
example : Coh { w := 3, t := t2, EN := edges t2, FE := reshape 3 (faceEdges t2).flatten } g2 :=
  coh_fresh 3 t2 (by decide)
/-- the end-to-end theorem instantiated: a history before, a request order after -/
example := built_grid_end_to_end (n := 4) (w := 3) (t := t2) (by decide) (idx := [1]) (by decide) (by decide)
  [.holes, .faceFace] [.nodeFace]
example : Edges.build (sliceFaces src2 [1]).t = ⟨[(0, 1), (0, 2), (1, 2)], [[0, 1, 2]], [3]⟩ := by decide
/-- what the repaired slicer reports for the second triangle, after any history -/
example : (g2.slice [1]).bind (fun u => u.view []) =
    some { en := [(0, 1), (0, 2), (1, 2)], fe := [[0, 1, 2]], npf := [3], nf := [[0], [0], [0]],
           ef := [(0, FILL), (0, FILL), (0, FILL)], ff := [[FILL, FILL, FILL]], holes := [0, 1, 2] } := by
  decide

/-- **as-is defect 1a**: /repo copies the source's `inverse_indices` onto the subset and drops
    `face_edge_connectivity`; the first request for it reshapes 6 numbers into a 1 × 3 table: it raises
    (every proper face subset of every grid) -/
theorem asis_face_edge_raises : (g2.sliceAsIs [1]).bind (fun u => request u .faceEdge) = none := by
  decide

/-- **as-is defect 1b**: when the sizes happen to agree (all faces, another order) nothing raises and
    the subset silently reports the SOURCE's rows in the SOURCE's order: row 0 does not describe
    subset face 0 (C02's specification of the subset fails) -/
theorem asis_face_edge_stale :
    ((g2.sliceAsIs [1, 0]).bind (fun u => u.view [])).map
      (fun v => (v.fe, decide (FaceEdgesOK [[2, 1, 3], [0, 1, 2]] 3 v.en v.fe)))
      = some ([[0, 2, 1], [2, 3, 4]], false) := by
  decide

/-- the repaired slicer on the same request -/
theorem repaired_face_edge_permuted :
    ((g2.slice [1, 0]).bind (fun u => u.view [])).map
      (fun v => (v.fe, decide (FaceEdgesOK [[2, 1, 3], [0, 1, 2]] 3 v.en v.fe)))
      = some ([[2, 3, 4], [0, 2, 1]], true) := by
  decide

/-- **as-is defect 2** (visible once defect 1 is repaired): a `hole_edge_indices` materialised on the
    source has no grid dimension, passes through `isel` unchanged and is reported by the subset: the
    source's four boundary edges instead of the subset's three -/
theorem asis_holes_stale :
    (((runHist g2 [.holes]).bind (fun g => g.sliceWith false true true [1])).bind (fun u => u.view [])).map
      (fun v => v.holes) = some [0, 1, 3, 4] ∧
    (((runHist g2 [.holes]).bind (fun g => g.slice [1])).bind (fun u => u.view [])).map
      (fun v => v.holes) = some [0, 1, 2] := by
  decide

/-- data: a rank-3 example of `data_aligned_rank` -/
example : (atN 1 (iselN 1 ([[10, 11, 12], [20, 21, 22]] : NArr Nat 1) [2, 0]) [1] 0).join = some 22 := by
  decide
/-- the scan on three edges, two schedules -/
example : crossingEdges (0 : Int) [(-1, 1), (1, 2), (3, -2)] [0, 1, 2] = [0, 2] ∧
    crossingEdges (0 : Int) [(-1, 1), (1, 2), (3, -2)] [2, 0, 1] = [0, 2] := by decide
/-- an antimeridian-spanning box keeps 175° and -178°, not 0° -/
example : boxSel ({ lon0 := 170, lon1 := -170, lat0 := -10, lat1 := 10, m180 := -180, p180 := 180 } : Box Int)
    [175, 0, -178] [0, 0, 5] = [0, 2] := by decide
example : knnSel ([5, 1, 3, 1] : List Int) 2 = [3, 1] := by decide

/-- the transport condition holds on the two-triangle example (its only interior edge becomes a boundary
    edge of the subset) and on a strip of three quads cut in the middle -/
example : EFDTransport { w := 3, t := t2, EN := edges t2, FE := faceEdges t2 } [1] := by decide
example : EFDTransport { w := 4, t := [[0, 1, 5, 4], [1, 2, 6, 5], [2, 3, 7, 6]],
                         EN := edges [[0, 1, 5, 4], [1, 2, 6, 5], [2, 3, 7, 6]],
                         FE := faceEdges [[0, 1, 5, 4], [1, 2, 6, 5], [2, 3, 7, 6]] } [2, 1] := by decide

/-- **as-is defect 3** (/repo after C09-1 and C09-2): a materialised `edge_face_distances` is sliced as if
    it were a per-edge invariant.  Two triangles sharing an edge, subset = the second one: if the parent had
    materialised the variable, the subset reports the distance to a face it does not contain for its edge 0
    (`(-1, 0)`); with a fresh parent (or the repaired slicer) that edge is a boundary edge with distance 0 -/
theorem asis_efd_stale :
    ((runHist g2 [.edgeFaceDist]).bind (fun g => g.sliceWith false false true [1])).bind (fun u => u.viewEFD [])
      = some [some (-1, 0), none, none] ∧
    ((runHist g2 []).bind (fun g => g.sliceWith false false true [1])).bind (fun u => u.viewEFD [])
      = some [none, none, none] ∧
    ((runHist g2 [.edgeFaceDist]).bind (fun g => g.slice [1])).bind (fun u => u.viewEFD [])
      = some [none, none, none] := by
  decide

/-- `efdTransport_of_pre` instantiated (three quads in a row, subset = the last two in reverse order):
    all its hypotheses are satisfiable -/
example : EFDTransport { w := 4, t := [[0, 1, 5, 4], [1, 2, 6, 5], [2, 3, 7, 6]],
                         EN := edges [[0, 1, 5, 4], [1, 2, 6, 5], [2, 3, 7, 6]],
                         FE := faceEdges [[0, 1, 5, 4], [1, 2, 6, 5], [2, 3, 7, 6]] } [2, 1] :=
  efdTransport_of_pre (n := 8) (n' := 6) (w := 4) _ _ (by decide) (by decide) (by decide) (by decide) (by decide)

/-- chunking the source between materialising `edge_face_distances` and slicing changes nothing (the
    seeded in-place write on a dask-backed copy breaks exactly this) -/
example : ((runHist g2 [.edgeFaceDist, .chunk, .faceFace]).bind (fun g => g.slice [1])).bind (fun u => u.viewEFD [.chunk])
    = some [none, none, none] := by decide

/-- a source-supplied edge table: the derived rows of the two triangles in ANOTHER order, three of them
    listing the larger node first.  The hypotheses of the slice theorems are met as they stand (C02's
    specification compares unordered pairs), the faces' edges are looked up in it, and the subset's
    recorded edges `[0, 2, 4]` are rows of THIS table with their orientation kept -/
def enSup : List (Int × Int) := [(2, 1), (0, 1), (3, 2), (2, 0), (1, 3)]
example : lookupFE t2 enSup = some [[1, 0, 3], [0, 4, 2]] := by decide
example : Pre 4 3 ⟨t2, enSup, [[1, 0, 3], [0, 4, 2]]⟩ [1] := by decide
example : Slice.Spec ⟨t2, enSup, [[1, 0, 3], [0, 4, 2]]⟩ 3 [1] (sliceFaces ⟨t2, enSup, [[1, 0, 3], [0, 4, 2]]⟩ [1]).obs :=
  slice_meets_spec (n := 4) (by decide)
example : sliceFaces ⟨t2, enSup, [[1, 0, 3], [0, 4, 2]]⟩ [1] =
    { nodeIdx := [1, 2, 3], faceIdx := [1], edgeIdx := [0, 2, 4], t := [[1, 0, 2]],
      EN := [(1, 0), (2, 1), (0, 2)], FE := [[0, 2, 1]] } := by decide
example := slice_keeps_supplied_edges (coh_supplied_en 3 t2 enSup [[1, 0, 3], [0, 4, 2]] (by decide)) rfl
  [.holes, .chunk, .edgeFaceDist]
/-- had the lookup failed to match the rows listing the larger node first (the seeded regression), the
    edges would have been rebuilt: another table, another numbering -/
example : edges t2 ≠ enSup := by decide

/-- latitude domain: nodes at 10° are ON the parallel 10° — the two faces that only touch it are not
    selected, the one crossing it is (same instance as the z-domain example above, in degrees) -/
example : CrossExact (10 : Int) [(10, 10), (10, 20), (10, 20), (10, 20), (20, 20), (5, 15), (15, 15), (15, 5)]
    [[0, 1, 2], [3, 4, 2], [5, 6, 7]] [3, 3, 3] [2] := by decide

end UxVerif.C09
