/-
  C06 — Integration is the area-weighted sum over faces.

  All theorems are about `Integrate.integrate` (the repaired, dimension-name based dispatch of
  `UxDataArray.integrate`) for EVERY grid, every list of areas, every array of any rank and any
  data over an arbitrary commutative semiring (ℚ in the driver, ℝ, …).  The as-is dispatch of the
  pinned snapshot (`integrateAsIs`, on the LENGTH of the last dimension) has the proved
  counterexample `asis_integrates_node_data` (tetrahedron: n_node = n_face = 4) and the partial
  theorem `asis_dispatch_rejects_partial`.

  The float tolerance of the `values` clause is backed by `close_of_rounded` /
  `spec_values_of_rounded` (Lemmas/IntegrateRound.lean): every order of summation, evaluated in the
  standard model of binary64 arithmetic, stays inside `n_face·2⁻⁵²·Σ|area·value|`.
-/
import Mathlib.Tactic.Ring
import Mathlib.Tactic.Positivity
import Mathlib.Tactic.Linarith
import Mathlib.Algebra.Order.Field.Rat
import UxVerif.Lemmas.Integrate
import UxVerif.Lemmas.IntegrateRound
import UxVerif.Model.Integrate
import UxVerif.Gen.Defaults

namespace UxVerif.C06
open UxVerif UxVerif.Integrate

/-- acceptance of a face-centred variable needs no algebra at all (used at `ExtVal`) -/
theorem integrate_accepts' {K : Type} [Add K] [Mul K] [OfNat K 0] (g : Grid) (areas : List K)
    (a : Arr K) (h : FaceCentred g a) : integrate g areas a = .ok (result areas a) := by
  obtain ⟨hd, hs, _⟩ := h
  simp [integrate, hd, hs]

section Semiring
variable {K : Type} [CommSemiring K]

/-- pointwise sum / scalar multiple / constant array (what `a + b`, `c * a`, `ones_like` do) -/
def addA (x y : Arr K) : Arr K := { x with data := List.zipWith (· + ·) x.data y.data }
def smulA (c : K) (x : Arr K) : Arr K := { x with data := x.data.map (c * ·) }
def constA (c : K) (dims : List Dim) (shape : List Nat) (name : Option Nat) (grid : Nat) : Arr K :=
  { dims := dims, shape := shape, data := List.replicate (prodL shape) c, name := name, grid := grid }
/-- the faces relabelled by `p` along the last axis (`data[..., p]`), `m` leading index
    combinations, `n` faces -/
def permA (p : List Nat) (m n : Nat) (x : Arr K) : Arr K :=
  { x with data := ((rowsOf m n x.data).map (reindex p)).flatten }

/-- a face-centred variable is accepted, and the result is `result` -/
theorem integrate_accepts (g : Grid) (areas : List K) (a : Arr K) (h : FaceCentred g a) :
    integrate g areas a = .ok (result areas a) := by
  obtain ⟨hd, hs, _⟩ := h
  simp [integrate, hd, hs]

/-- **linearity, additive part**: ∫(x + y) = ∫x + ∫y for face-centred variables of one shape. -/
theorem integrate_add (g : Grid) (areas : List K) (x y : Arr K)
    (hx : FaceCentred g x) (hy : FaceCentred g y) (hs : x.shape = y.shape) :
    integrate g areas x = .ok (result areas x) ∧ integrate g areas y = .ok (result areas y) ∧
    integrate g areas (addA x y) = .ok (addA (result areas x) (result areas y)) := by
  refine ⟨integrate_accepts g areas x hx, integrate_accepts g areas y hy, ?_⟩
  have hlen : x.data.length = y.data.length := by rw [hx.2.2.2.1, hy.2.2.2.1, hs]
  have hadd : FaceCentred g (addA x y) := by
    obtain ⟨h1, h2, h3, h4, h5⟩ := hx
    exact ⟨h1, h2, h3, by simp [addA, ← hlen, h4], h5⟩
  rw [integrate_accepts g areas _ hadd]
  congr 1
  simp only [result, addA, integrateData, ← hs]
  congr 1
  generalize prodL x.shape.dropLast = m
  generalize x.data = l1 at hlen
  generalize y.data = l2 at hlen
  induction m generalizing l1 l2 with
  | zero => rfl
  | succ m ih =>
    simp only [rowsOf, List.map_cons, List.zipWith_cons_cons, List.take_zipWith, List.drop_zipWith]
    rw [dot_add areas _ _ (by simp [hlen]), ih _ _ (by simp [hlen])]

/-- **linearity, homogeneous part**: ∫(c·x) = c·∫x. -/
theorem integrate_smul (g : Grid) (areas : List K) (c : K) (x : Arr K) (hx : FaceCentred g x) :
    integrate g areas (smulA c x) = .ok (smulA c (result areas x)) := by
  have hs : FaceCentred g (smulA c x) := by
    obtain ⟨h1, h2, h3, h4, h5⟩ := hx
    exact ⟨h1, h2, h3, by simp [smulA, h4], h5⟩
  rw [integrate_accepts g areas _ hs]
  congr 1
  simp only [result, smulA, integrateData, rowsOf_map, List.map_map]
  congr 1
  apply List.map_congr_left
  intro r _
  simp [dot_smul]

/-- **integrating the constant 1 gives the total area**, for every leading shape. -/
theorem integrate_one (g : Grid) (areas : List K) (lead : List Nat) (dims : List Dim)
    (name : Option Nat) (ha : areas.length = g.nFace) :
    integrate g areas (constA 1 (dims ++ [Dim.face]) (lead ++ [g.nFace]) name g.gid) =
      .ok (constA (sumL areas) dims lead name g.gid) := by
  simp only [integrate, constA, List.getLast?_append, List.getLast?_singleton, Option.some_or,
    if_true, result, List.dropLast_concat, integrateData, ha, prodL_append, prodL, Nat.mul_one]
  congr 2
  generalize prodL lead = m
  induction m with
  | zero => simp [rowsOf]
  | succ m ih =>
    rw [Nat.succ_mul, List.replicate_succ, ← ih]
    simp only [rowsOf, List.map_cons, List.take_replicate, List.drop_replicate]
    rw [show min g.nFace (m * g.nFace + g.nFace) = areas.length by omega,
      show m * g.nFace + g.nFace - g.nFace = m * g.nFace by omega, dot_ones]

/-- **shape**: exactly the (last) face dimension is removed, for every rank; the result is a
    well-formed array; name and grid are kept. -/
theorem integrate_shape (g : Grid) (areas : List K) (a : Arr K) (h : FaceCentred g a) :
    ∃ r, integrate g areas a = .ok r ∧
      a.dims = r.dims ++ [Dim.face] ∧ a.shape = r.shape ++ [g.nFace] ∧
      r.dims.length = r.shape.length ∧ r.data.length = prodL r.shape ∧
      r.name = a.name ∧ r.grid = a.grid := by
  refine ⟨result areas a, integrate_accepts g areas a h, ?_⟩
  obtain ⟨hd, hs, hl, _, _⟩ := h
  refine ⟨dropLast_getLast _ _ hd, dropLast_getLast _ _ hs, ?_, ?_, rfl, rfl⟩
  · simp [result, hl]
  · simp [result, integrateData]

/-- **values**: for EVERY multi-index `idx` of the leading dimensions the result holds
    Σ_f area[f] · value[idx, f] (the row is read from the flat data at the row-major positions of
    `(idx, f)`, all of which are in bounds). -/
theorem integrate_index (g : Grid) (areas : List K) (a : Arr K) (h : FaceCentred g a)
    (ha : areas.length = g.nFace) (idx : List Nat) (hidx : InShape a.shape.dropLast idx) :
    ∃ row : List K, row.length = g.nFace ∧
      (∀ f, f < g.nFace → ravel a.shape (idx ++ [f]) < a.data.length ∧
        row[f]? = a.data[ravel a.shape (idx ++ [f])]?) ∧
      (result areas a).data[ravel a.shape.dropLast idx]? = some (dot areas row) := by
  obtain ⟨_, hs, _, hlen, _⟩ := h
  have hshape := dropLast_getLast _ _ hs
  have hi := ravel_lt _ _ hidx
  have hlen' : a.data.length = prodL a.shape.dropLast * g.nFace := by
    rw [hlen]; conv_lhs => rw [hshape]
    simp [prodL_append, prodL]
  refine ⟨rowAt g.nFace a.data (ravel a.shape.dropLast idx), ?_, ?_, ?_⟩
  · exact rowAt_length _ _ _ _ hlen' hi
  · intro f hf
    have hrav : ravel a.shape (idx ++ [f]) = ravel a.shape.dropLast idx * g.nFace + f := by
      conv_lhs => rw [hshape]
      exact ravel_snoc _ _ _ _ hidx
    rw [hrav]
    refine ⟨?_, rowAt_getElem? _ _ _ _ hf⟩
    rw [hlen']
    calc ravel a.shape.dropLast idx * g.nFace + f
        < ravel a.shape.dropLast idx * g.nFace + g.nFace := by omega
      _ = (ravel a.shape.dropLast idx + 1) * g.nFace := by rw [Nat.succ_mul]
      _ ≤ prodL a.shape.dropLast * g.nFace := Nat.mul_le_mul_right _ hi
  · simp only [result, integrateData, List.getElem?_map, ha]
    rw [rowsOf_getElem? _ _ _ _ hi]; rfl

/-- **invariance under relabelling the faces**: permuting areas and the last axis of the data by
    the same permutation `p` of `0..n_face-1` leaves the integral unchanged. -/
theorem integrate_perm (g : Grid) (areas : List K) (a : Arr K) (h : FaceCentred g a)
    (ha : areas.length = g.nFace) (p : List Nat) (hp : p.Perm (List.range g.nFace)) :
    integrate g (reindex p areas) (permA p (prodL a.shape.dropLast) g.nFace a) =
      integrate g areas a := by
  obtain ⟨hd, hs, hl, hlen, hg⟩ := h
  have hshape := dropLast_getLast _ _ hs
  have hlen' : a.data.length = prodL a.shape.dropLast * g.nFace := by
    rw [hlen]; conv_lhs => rw [hshape]
    simp [prodL_append, prodL]
  have hrows := rowsOf_row_length _ _ _ hlen'
  simp only [integrate, permA, hd, hs, if_true, result, integrateData,
    reindex_length hp areas ha, ha]
  congr 2
  have hflat : rowsOf (prodL a.shape.dropLast) g.nFace
      ((rowsOf (prodL a.shape.dropLast) g.nFace a.data).map (reindex p)).flatten
      = (rowsOf (prodL a.shape.dropLast) g.nFace a.data).map (reindex p) := by
    have := rowsOf_flatten g.nFace ((rowsOf (prodL a.shape.dropLast) g.nFace a.data).map (reindex p))
      (by
        intro r hr
        obtain ⟨r0, hr0, rfl⟩ := List.mem_map.mp hr
        exact reindex_length hp r0 (hrows r0 hr0))
    simpa using this
  rw [hflat, List.map_map]
  apply List.map_congr_left
  intro r hr
  exact dot_reindex hp areas r ha (hrows r hr)

/-- **rejection by dimension**: a variable whose element dimension is `n_node` or `n_edge` is
    rejected — for every grid, in particular when `n_node = n_face` or `n_edge = n_node`, and
    whatever its shape. -/
theorem dispatch_rejects (g : Grid) (areas : List K) (a : Arr K) (h : NodeOrEdge a) :
    ∃ e, integrate g areas a = .error e := by
  rcases h with h | h <;> simp [integrate, h]

/-- the result carries the variable's name and the identity of its grid -/
theorem integrate_keeps_name_grid (g : Grid) (areas : List K) (a r : Arr K)
    (h : integrate g areas a = .ok r) : r.name = a.name ∧ r.grid = a.grid := by
  unfold integrate at h
  split at h
  · split at h
    · cases h; exact ⟨rfl, rfl⟩
    · cases h
  all_goals cases h

/-! #### the decision is made by the NAME of the last dimension, never by coincidences of lengths -/

/-- **acceptance ⇔ the last dimension is NAMED `n_face`** (and has the grid's face count) -/
theorem integrate_ok_iff (g : Grid) (areas : List K) (a : Arr K) :
    (∃ r, integrate g areas a = .ok r) ↔
      a.dims.getLast? = some Dim.face ∧ a.shape.getLast? = some g.nFace := by
  unfold integrate
  constructor
  · intro ⟨r, h⟩
    split at h
    · split at h
      · exact ⟨‹_›, ‹_›⟩
      · cases h
    all_goals cases h
  · intro ⟨hd, hs⟩
    simp [hd, hs]

/-- **dispatch by name**: `integrate` never reads `n_node`, `n_edge` (nor the grid's identity):
    two grids with the same face count give the same decision AND the same result, whatever
    their node/edge counts are — equal to `n_face`, to each other, or not. -/
theorem integrate_dispatch_by_name (g g' : Grid) (areas : List K) (a : Arr K)
    (h : g.nFace = g'.nFace) : integrate g areas a = integrate g' areas a := by
  unfold integrate
  rw [h]

/-- a last dimension with any name other than `n_face` is rejected — `n_node`, `n_edge`, `dim_0`,
    `nCells`, …, for every length (also the face count) and every grid -/
theorem integrate_rejects_non_face_name (g : Grid) (areas : List K) (a : Arr K)
    (h : a.dims.getLast? ≠ some Dim.face) : ∃ e, integrate g areas a = .error e := by
  unfold integrate
  split
  · exact absurd ‹_› h
  all_goals exact ⟨_, rfl⟩

/-- node- or edge-sized data under a non-grid name is rejected, in particular on grids where that
    length equals `n_face` -/
theorem unnamed_sized_rejects (g : Grid) (areas : List K) (a : Arr K) (h : SizedUnnamed g a) :
    ∃ e, integrate g areas a = .error e := by
  apply integrate_rejects_non_face_name
  intro hf
  have := h.1
  simp [NonGridName, hf, Dim.isOther] at this

/-- the accept/reject decision of two arrays with the same last-dimension name and length is the
    same — nothing else about them matters -/
theorem integrate_decision_congr (g : Grid) (areas : List K) (a b : Arr K)
    (hd : a.dims.getLast? = b.dims.getLast?) (hs : a.shape.getLast? = b.shape.getLast?) :
    (∃ r, integrate g areas a = .ok r) ↔ (∃ r, integrate g areas b = .ok r) := by
  rw [integrate_ok_iff, integrate_ok_iff, hd, hs]

/-- the length-fallback variant (seeded regression C06f) is right where the counts differ from
    `n_face` (excluded class: `n_node = n_face ∨ n_edge = n_face`, see
    `lenfallback_integrates_unnamed_node_data`) -/
theorem lenfallback_rejects_partial (g : Grid) (areas : List K) (a : Arr K)
    (hnf : g.nNode ≠ g.nFace) (hef : g.nEdge ≠ g.nFace) (h : SizedUnnamed g a) :
    ∃ e, integrateLenFallback g areas a = .error e := by
  obtain ⟨hname, hlen⟩ := h
  unfold integrateLenFallback
  split
  · rename_i k s hd hs
    rcases hlen with hl | hl
    · rw [hs] at hl; cases hl
      simp [hnf]
    · rw [hs] at hl; cases hl
      simp [hef]
      split <;> simp
  · apply integrate_rejects_non_face_name
    intro hf
    simp [NonGridName, hf, Dim.isOther] at hname

/-- the as-is dispatch agrees with the repaired one on face-centred variables … -/
theorem asis_accepts (g : Grid) (areas : List K) (a : Arr K) (h : FaceCentred g a) :
    integrateAsIs g areas a = integrate g areas a := by
  rw [integrate_accepts g areas a h]
  simp [integrateAsIs, h.2.1]

/-- … and rejects node/edge variables on grids whose element counts are pairwise different from
    `n_face` (the class the as-is code gets right; the excluded class is
    `n_node = n_face ∨ n_edge = n_face`, see `asis_integrates_node_data`). -/
theorem asis_dispatch_rejects_partial (g : Grid) (areas : List K) (a : Arr K)
    (hn : a.dims.getLast? = some Dim.node → a.shape.getLast? = some g.nNode)
    (he : a.dims.getLast? = some Dim.edge → a.shape.getLast? = some g.nEdge)
    (hnf : g.nNode ≠ g.nFace) (hef : g.nEdge ≠ g.nFace) (h : NodeOrEdge a) :
    ∃ e, integrateAsIs g areas a = .error e := by
  rcases h with h | h
  · simp [integrateAsIs, hn h, hnf]
  · simp [integrateAsIs, he h, hef]
    split <;> simp

end Semiring

/-! ### the as-is defect, as a proved counterexample -/

/-- tetrahedron: 4 nodes, 4 faces, 6 edges -/
def tetra : Grid := { nFace := 4, nNode := 4, nEdge := 6, gid := 7 }
/-- node-centred data on the tetrahedron -/
def tetraNodeData : Arr Nat :=
  { dims := [Dim.node], shape := [4], data := [0, 1, 2, 3], name := some 0, grid := 7 }

/-- what the as-is code returns on the witness: the "integral" 0·1+1·1+2·1+3·1 = 6 -/
theorem asis_witness_value :
    integrateAsIs tetra [1, 1, 1, 1] tetraNodeData =
      .ok { dims := [], shape := [], data := [6], name := some 0, grid := 7 } := by decide

/-- **as-is defect**: the size-based dispatch integrates node-centred data when
    `n_node = n_face`; `dispatch_rejects` is false of `integrateAsIs`. -/
theorem asis_integrates_node_data :
    ¬ (∀ (g : Grid) (areas : List Nat) (a : Arr Nat), NodeOrEdge a →
        ∃ e, integrateAsIs g areas a = .error e) := by
  intro h
  obtain ⟨e, he⟩ := h tetra [1, 1, 1, 1] tetraNodeData (by decide)
  rw [asis_witness_value] at he
  cases he

/-- the repaired dispatch rejects the same witness -/
theorem repaired_rejects_witness :
    integrate tetra [1, 1, 1, 1] tetraNodeData = .error .node := by decide

/-- node-sized data on the tetrahedron under a non-grid name (`dim_0`, `nVertices`, …) -/
def tetraUnnamed : Arr Nat :=
  { dims := [Dim.other 0], shape := [4], data := [0, 1, 2, 3], name := some 0, grid := 7 }

/-- **regression variant C06f**: inferring the element kind of an unnamed dimension from its
    LENGTH integrates node-sized data on the tetrahedron (n_node = n_face = 4) -/
theorem lenfallback_integrates_unnamed_node_data :
    ¬ (∀ (g : Grid) (areas : List Nat) (a : Arr Nat), SizedUnnamed g a →
        ∃ e, integrateLenFallback g areas a = .error e) := by
  intro h
  obtain ⟨e, he⟩ := h tetra [1, 1, 1, 1] tetraUnnamed (by decide)
  have hv : integrateLenFallback tetra [1, 1, 1, 1] tetraUnnamed =
      .ok { dims := [], shape := [], data := [6], name := some 0, grid := 7 } := by decide
  rw [hv] at he
  cases he

/-- the repaired (name-only) dispatch rejects that witness, as `/repo` does -/
theorem repaired_rejects_unnamed_witness :
    SizedUnnamed tetra tetraUnnamed ∧
    integrate tetra [1, 1, 1, 1] tetraUnnamed = .error .other := by decide

/-- **known finding** (legacy `UxDataset.integrate`): no dispatch at all — node data of the right
    length is integrated -/
theorem asis_dataset_integrates_node_data :
    ¬ (∀ (g : Grid) (areas : List Nat) (a : Arr Nat), NodeOrEdge a →
        ∃ e, datasetIntegrateAsIs g areas a = .error e) := by
  intro h
  obtain ⟨e, he⟩ := h tetra [1, 1, 1, 1] tetraNodeData (by decide)
  have hv : datasetIntegrateAsIs tetra [1, 1, 1, 1] tetraNodeData =
      .ok { dims := [], shape := [], data := [6], name := some 0, grid := 7 } := by decide
  rw [hv] at he
  cases he

/-- **known finding** (legacy `UxDataset.integrate`): a face-centred variable with a leading
    dimension is not integrated -/
theorem asis_dataset_rejects_leading_dims :
    ∃ (g : Grid) (areas : List Nat) (a : Arr Nat), FaceCentred g a ∧
      datasetIntegrateAsIs g areas a = .error .other :=
  ⟨{ nFace := 2, nNode := 4, nEdge := 5, gid := 1 }, [5, 7],
   { dims := [Dim.other 0, Dim.face], shape := [3, 2], data := [1, 2, 3, 4, 5, 6], name := none,
     grid := 1 }, by decide, by decide⟩

/-- on 1-D face-centred variables the legacy method computes the same numbers -/
theorem asis_dataset_1d_partial {K : Type} [CommSemiring K] (g : Grid) (areas : List K) (a : Arr K)
    (h : FaceCentred g a) (h1 : a.shape.length = 1) :
    datasetIntegrateAsIs g areas a = integrate g areas a := by
  rw [integrate_accepts g areas a h]
  obtain ⟨_, hs, _⟩ := h
  have : a.shape = [g.nFace] := by
    match hsh : a.shape, h1 with
    | [x], _ => rw [hsh] at hs; simp at hs; rw [hs]
  simp [datasetIntegrateAsIs, this]

/-! ### the decidable specification and refinement -/

theorem absQ_nonneg (x : Rat) : 0 ≤ absQ x := by
  unfold absQ; split
  · linarith
  · linarith

theorem sumAbs_nonneg (a : List Rat) : ∀ r, 0 ≤ sumAbs a r := by
  induction a with
  | nil => intro r; simp [sumAbs]
  | cons x a ih =>
    intro r
    cases r with
    | nil => simp [sumAbs]
    | cons y r =>
      simp only [sumAbs]
      have := absQ_nonneg (x * y)
      have := ih r
      linarith

/-- the exact weighted sum is within the float tolerance of itself -/
theorem close_exact (areas row : List Rat) : Close areas row (dot areas row) := by
  unfold Close
  have h0 : absQ (dot areas row - dot areas row) = 0 := by simp [absQ]
  rw [h0]
  have := sumAbs_nonneg areas row
  have hu : (0 : Rat) ≤ ulp := by unfold ulp; positivity
  positivity

/-- the printed clause list is empty exactly when the specification holds -/
theorem failedClauses_nil_iff (g : Grid) (areas : List Rat) (a : Arr Rat) (o : Obs) :
    failedClauses g areas a o = [] ↔ Spec g areas a o := by
  unfold failedClauses Spec
  by_cases hf : FaceCentred g a <;> by_cases hn : NodeOrEdge a <;>
    by_cases hz : SizedUnnamed g a <;> cases o <;> simp [hf, hn, hz]

/-- **refinement**: on every input the (repaired) model's exact output satisfies the
    specification the driver evaluates on the implementation's output. -/
theorem integrate_meets_spec (g : Grid) (areas : List Rat) (a : Arr Rat) :
    Spec g areas a (obsOf (integrate g areas a)) := by
  refine ⟨?_, ?_, ?_⟩
  · intro h
    rw [integrate_accepts g areas a h]
    refine ⟨result areas a, rfl, rfl, ⟨rfl, by simp [result, integrateData]⟩, rfl, rfl, ?_⟩
    intro i hi
    refine ⟨dot areas (rowAt areas.length a.data i), ?_, close_exact _ _⟩
    simp only [result, integrateData, List.getElem?_map]
    rw [rowsOf_getElem? _ _ _ _ hi]; rfl
  · intro h
    obtain ⟨e, he⟩ := dispatch_rejects g areas a h
    rw [he]; rfl
  · intro h
    obtain ⟨e, he⟩ := unnamed_sized_rejects g areas a h
    rw [he]; rfl

/-- the as-is model violates the specification on the tetrahedron witness -/
theorem asis_fails_spec :
    ¬ Spec tetra [1, 1, 1, 1]
        { dims := [Dim.node], shape := [4], data := [0, 1, 2, 3], name := some 0, grid := 7 }
        (obsOf (integrateAsIs tetra [1, 1, 1, 1]
          { dims := [Dim.node], shape := [4], data := [0, 1, 2, 3], name := some 0, grid := 7 })) := by
  intro h
  have := h.2.1 (by decide)
  revert this
  decide

/-- the length-fallback variant violates the specification on the unnamed tetrahedron witness -/
theorem lenfallback_fails_spec :
    ¬ Spec tetra [1, 1, 1, 1]
        { dims := [Dim.other 0], shape := [4], data := [0, 1, 2, 3], name := some 0, grid := 7 }
        (obsOf (integrateLenFallback tetra [1, 1, 1, 1]
          { dims := [Dim.other 0], shape := [4], data := [0, 1, 2, 3], name := some 0, grid := 7 })) := by
  intro h
  have := h.2.2 (by decide)
  revert this
  decide

/-! ### no dependence on previously integrated grids (process state)

  For the MODEL this is true by construction (`runProcess` is a `map`): the theorem below only
  makes the obligation explicit.  That the CODE has no such state is a correspondence obligation,
  discharged by the harness's process-state streams (20–40 grids built, integrated and released
  one after another, equal n_face, different geometry, address re-use counted).  The seeded
  variant C06e (`runIdCache`: table keyed by the grid's address) has the counterexample
  `idcache_depends_on_history` and is correct exactly as long as no two different grids share an
  address (`idcache_partial`). -/

section Process
variable {K : Type} [CommSemiring K]

/-- **history independence**: whatever was integrated before (any grids, any rules, any data),
    the result of a call is `integrate` of its own grid, its own areas and its own data. -/
theorem process_independent (pre : List (Step K)) (s : Step K) (post : List (Step K)) :
    (runProcess (pre ++ s :: post))[pre.length]? = some (integrate s.g s.areas s.a) := by
  simp [runProcess]

/-- the id-keyed cache is right as long as calls with the same (address, rule) key carry the same
    areas — i.e. as long as no address is re-used by a different grid (excluded class: address
    re-use after garbage collection, see `idcache_depends_on_history`) -/
theorem idcache_partial (cache : List ((Nat × Nat) × List K)) (steps : List (Step K))
    (hc : ∀ s ∈ steps, ∀ v, cache.lookup (s.addr, s.rule) = some v → v = s.areas)
    (hs : ∀ s ∈ steps, ∀ t ∈ steps, (s.addr, s.rule) = (t.addr, t.rule) → s.areas = t.areas) :
    runIdCache cache steps = runProcess steps := by
  induction steps generalizing cache with
  | nil => rfl
  | cons s ss ih =>
    have hss : ∀ x ∈ ss, ∀ t ∈ ss, (x.addr, x.rule) = (t.addr, t.rule) → x.areas = t.areas :=
      fun x hx t ht => hs x (List.mem_cons_of_mem _ hx) t (List.mem_cons_of_mem _ ht)
    simp only [runIdCache, runProcess, List.map_cons]
    unfold stepIdCache
    split
    · cases hl : cache.lookup (s.addr, s.rule) with
      | some ar =>
        have := hc s (by simp) ar hl
        subst this
        simp only
        congr 1
        exact ih cache (fun x hx v hv => hc x (List.mem_cons_of_mem _ hx) v hv) hss
      | none =>
        simp only
        congr 1
        apply ih _ _ hss
        intro x hx v hv
        rw [List.lookup_cons] at hv
        by_cases hk : ((x.addr, x.rule) == (s.addr, s.rule)) = true
        · rw [hk] at hv
          cases hv
          exact hs s (by simp) x (List.mem_cons_of_mem _ hx) (beq_iff_eq.mp hk).symm
        · simp only [Bool.not_eq_true] at hk
          rw [hk] at hv
          exact hc x (List.mem_cons_of_mem _ hx) v hv
    · simp only
      congr 1
      exact ih cache (fun x hx v hv => hc x (List.mem_cons_of_mem _ hx) v hv) hss

end Process

/-- two different 2-face grids that live, one after the other, at the same address 100 -/
def procA : Step Nat :=
  { addr := 100, rule := 3, g := { nFace := 2, nNode := 4, nEdge := 5, gid := 1 }, areas := [5, 7],
    a := { dims := [Dim.face], shape := [2], data := [1, 1], name := none, grid := 1 } }
def procB : Step Nat :=
  { addr := 100, rule := 3, g := { nFace := 2, nNode := 4, nEdge := 5, gid := 2 }, areas := [1, 2],
    a := { dims := [Dim.face], shape := [2], data := [1, 1], name := none, grid := 2 } }

/-- **seeded variant C06e**: with a table keyed by the grid's address, ∫1 on the second grid
    returns the FIRST grid's total area (12 instead of 3): the result depends on the history -/
theorem idcache_depends_on_history :
    runIdCache [] [procA, procB] ≠ runProcess [procA, procB] ∧
    (runIdCache [] [procA, procB])[1]? =
      some (.ok { dims := [], shape := [], data := [12], name := none, grid := 2 }) ∧
    (runProcess [procA, procB])[1]? =
      some (.ok { dims := [], shape := [], data := [3], name := none, grid := 2 }) := by decide

-- non-vacuity of `idcache_partial`: distinct addresses, empty table
example : runIdCache [] [procA, { procB with addr := 101 }] = runProcess [procA, { procB with addr := 101 }] := by
  decide
example : (runProcess ([procA] ++ procB :: []))[[procA].length]? = some (integrate procB.g procB.areas procB.a) :=
  process_independent [procA] procB []

/-! ### special values: NaN and ±∞ in the data

  `integrate` over `ExtVal` (the same model function, IEEE rules on the special values, exact
  rationals on finite ones).  A NaN on one face of a row makes that row's integral NaN — it is
  never skipped; on finite data the extended model is the rational model.  xarray's
  `sum(skipna=True)` (seeded variant C06g, `dotSkipNaN`) has the counterexample
  `skipna_drops_nan`. -/

section Ext
open ExtVal

theorem dot_cons' {K : Type} [Add K] [Mul K] [OfNat K 0] (x y : K) (a r : List K) :
    dot (x :: a) (y :: r) = x * y + dot a r := rfl

theorem ext_nan_add (x : ExtVal) : (ExtVal.nan + x : ExtVal) = ExtVal.nan := rfl
theorem ext_add_nan (x : ExtVal) : (x + ExtVal.nan : ExtVal) = ExtVal.nan := by cases x <;> rfl
theorem ext_mul_nan (x : ExtVal) : (x * ExtVal.nan : ExtVal) = ExtVal.nan := by cases x <;> rfl
theorem ext_fin_add (a b : Rat) : (ExtVal.fin a + ExtVal.fin b : ExtVal) = ExtVal.fin (a + b) := rfl
theorem ext_fin_mul (a b : Rat) : (ExtVal.fin a * ExtVal.fin b : ExtVal) = ExtVal.fin (a * b) := rfl

/-- **a NaN term makes the weighted sum NaN**, wherever it stands and whatever the other values
    (finite, ±∞, NaN) and areas are -/
theorem dot_nan_propagates (areas : List Rat) : ∀ (row : List ExtVal) (f : Nat),
    f < areas.length → row[f]? = some ExtVal.nan →
    dot (areas.map ExtVal.fin) row = ExtVal.nan := by
  induction areas with
  | nil => intro row f hf; simp at hf
  | cons a as ih =>
    intro row f hf hrow
    cases row with
    | nil => simp at hrow
    | cons d ds =>
      simp only [List.map_cons, dot_cons']
      cases f with
      | zero =>
        simp only [List.getElem?_cons_zero, Option.some.injEq] at hrow
        subst hrow
        rw [ext_mul_nan, ext_nan_add]
      | succ f =>
        simp only [List.getElem?_cons_succ] at hrow
        rw [ih ds f (by simpa using hf) hrow, ext_add_nan]

/-- **NaN propagates through `integrate`**: if face `f` of leading index `i` holds NaN, element `i`
    of the result is NaN — for every grid, rank and every other value in the array -/
theorem integrate_nan_propagates (g : Grid) (areas : List Rat) (a : Arr ExtVal)
    (h : FaceCentred g a) (ha : areas.length = g.nFace) (i f : Nat)
    (hi : i < prodL a.shape.dropLast) (hf : f < g.nFace)
    (hnan : a.data[i * g.nFace + f]? = some ExtVal.nan) :
    ∃ r, integrate g (areas.map ExtVal.fin) a = .ok r ∧ r.data[i]? = some ExtVal.nan := by
  refine ⟨_, integrate_accepts' g _ a h, ?_⟩
  simp only [result, integrateData, List.getElem?_map, List.length_map, ha]
  rw [rowsOf_getElem? _ _ _ _ hi]
  simp only [Option.map_some]
  congr 1
  apply dot_nan_propagates areas _ f (by omega)
  rw [rowAt_getElem? _ _ _ _ hf]
  exact hnan

/-- on finite data the extended model IS the rational model (conservative extension) -/
theorem dot_ext_finite (areas : List Rat) : ∀ qs : List Rat,
    dot (areas.map ExtVal.fin) (qs.map ExtVal.fin) = ExtVal.fin (dot areas qs) := by
  induction areas with
  | nil => intro qs; cases qs <;> rfl
  | cons a as ih =>
    intro qs
    cases qs with
    | nil => rfl
    | cons q qs => simp only [List.map_cons, dot_cons', ih qs, ext_fin_mul, ext_fin_add]

theorem integrateData_ext_finite (areas : List Rat) (m : Nat) (data : List Rat) :
    integrateData (areas.map ExtVal.fin) m (data.map ExtVal.fin) =
      (integrateData areas m data).map ExtVal.fin := by
  simp only [integrateData, List.length_map, rowsOf_map, List.map_map]
  apply List.map_congr_left
  intro r _
  simp [dot_ext_finite]

theorem ext_add_fin_inv {x y : ExtVal} {v : Rat} (h : (x + y : ExtVal) = ExtVal.fin v) :
    ∃ a b, x = ExtVal.fin a ∧ y = ExtVal.fin b ∧ v = a + b := by
  cases x <;> cases y
  case fin.fin a b => exact ⟨a, b, rfl, rfl, by cases h; rfl⟩
  all_goals cases h

theorem ext_fin_mul_inv {a : Rat} {d : ExtVal} {w : Rat}
    (h : (ExtVal.fin a * d : ExtVal) = ExtVal.fin w) : ∃ q, d = ExtVal.fin q ∧ w = a * q := by
  cases d with
  | nan => cases h
  | pinf =>
    change ExtVal.infTimes true a = _ at h
    unfold ExtVal.infTimes at h; split at h
    · cases h
    · split at h <;> cases h
  | ninf =>
    change ExtVal.infTimes false a = _ at h
    unfold ExtVal.infTimes at h; split at h
    · cases h
    · split at h <;> cases h
  | fin q => exact ⟨q, rfl, by cases h; rfl⟩

/-- a finite extended sum is the rational sum of the (then necessarily finite) entries -/
theorem dot_ext_fin_inv (areas : List Rat) : ∀ (row : List ExtVal) (v : Rat),
    dot (areas.map ExtVal.fin) row = ExtVal.fin v →
    dot areas ((row.take areas.length).filterMap ExtVal.toRat?) = v := by
  induction areas with
  | nil =>
    intro row v h
    have : (ExtVal.fin 0 : ExtVal) = ExtVal.fin v := by
      cases row <;> exact h
    cases this; rfl
  | cons a as ih =>
    intro row v h
    cases row with
    | nil =>
      have : (ExtVal.fin 0 : ExtVal) = ExtVal.fin v := h
      cases this; rfl
    | cons d ds =>
      simp only [List.map_cons, dot_cons'] at h
      obtain ⟨w, v', hw, hv', rfl⟩ := ext_add_fin_inv h
      obtain ⟨q, rfl, rfl⟩ := ext_fin_mul_inv hw
      simp only [List.length_cons, List.take_succ_cons, List.filterMap_cons, ExtVal.toRat?, dot_cons]
      rw [ih ds v' hv']

/-- the extended model's own value satisfies the extended value clause -/
theorem closeE_self (areas : List Rat) (row : List ExtVal) :
    CloseE areas row (dot (areas.map ExtVal.fin) row) := by
  unfold CloseE
  cases hd : dot (areas.map ExtVal.fin) row with
  | nan => trivial
  | pinf => trivial
  | ninf => trivial
  | fin v =>
    simp only
    rw [← dot_ext_fin_inv areas row v hd]
    exact close_exact _ _

theorem failedClausesE_nil_iff (g : Grid) (areas : List Rat) (a : Arr ExtVal) (o : ObsE) :
    failedClausesE g areas a o = [] ↔ SpecE g areas a o := by
  unfold failedClausesE SpecE
  by_cases hf : FaceCentred g a <;> by_cases hn : NodeOrEdge a <;>
    by_cases hz : SizedUnnamed g a <;> cases o <;> simp [hf, hn, hz]

/-- **refinement on special values**: the model run over extended values satisfies `SpecE` -/
theorem integrateE_meets_spec (g : Grid) (areas : List Rat) (a : Arr ExtVal) :
    SpecE g areas a (obsEOf (integrate g (areas.map ExtVal.fin) a)) := by
  refine ⟨?_, ?_, ?_⟩
  · intro h
    rw [integrate_accepts' g _ a h]
    refine ⟨_, rfl, ⟨rfl, ⟨rfl, by simp [result, integrateData]⟩, rfl, rfl⟩, ?_⟩
    intro i hi
    refine ⟨dot (areas.map ExtVal.fin) (rowAt areas.length a.data i), ?_, closeE_self _ _⟩
    simp only [result, integrateData, List.getElem?_map, List.length_map]
    rw [rowsOf_getElem? _ _ _ _ hi]; rfl
  · intro h
    rcases h with h | h <;> simp [integrate, h, obsEOf]
  · intro h
    have hne : a.dims.getLast? ≠ some Dim.face := by
      intro hf
      have := h.1
      simp [NonGridName, hf, Dim.isOther] at this
    unfold integrate
    split
    · exact absurd ‹_› hne
    all_goals rfl

/-- **seeded variant C06g**: a NaN-skipping sum returns the finite sum of the other faces (3
    instead of NaN), integrates an all-NaN row to 0, and fails the specification's value clause -/
theorem skipna_drops_nan :
    dotSkipNaN [1, 1] [ExtVal.nan, ExtVal.fin 3] = ExtVal.fin 3 ∧
    dot ([1, 1].map ExtVal.fin) [ExtVal.nan, ExtVal.fin 3] = ExtVal.nan ∧
    dotSkipNaN [1, 1] [ExtVal.nan, ExtVal.nan] = ExtVal.fin 0 ∧
    ¬ CloseE [1, 1] [ExtVal.nan, ExtVal.fin 3] (dotSkipNaN [1, 1] [ExtVal.nan, ExtVal.fin 3]) := by
  have h1 : dotSkipNaN [1, 1] [ExtVal.nan, ExtVal.fin 3] = ExtVal.fin 3 := by
    show ExtVal.fin (1 * 3 + 0) = ExtVal.fin 3
    norm_num
  have h2 : dot ([1, 1].map ExtVal.fin) [ExtVal.nan, ExtVal.fin 3] = ExtVal.nan := rfl
  refine ⟨h1, h2, rfl, ?_⟩
  rw [h1]
  unfold CloseE
  rw [h2]
  exact fun h => h

/-- the skipping sum is right exactly on the class it was written for: no NaN in the row and no
    zero area (so that no product is NaN) -/
theorem skipna_partial (areas : List Rat) : ∀ row : List ExtVal,
    (∀ d ∈ row, d ≠ ExtVal.nan) → (∀ a ∈ areas, a ≠ 0) →
    dotSkipNaN areas row = dot (areas.map ExtVal.fin) row := by
  induction areas with
  | nil => intro row _ _; cases row <;> rfl
  | cons a as ih =>
    intro row hrow hz
    cases row with
    | nil => rfl
    | cons d ds =>
      have ih' := ih ds (fun x hx => hrow x (by simp [hx])) (fun x hx => hz x (by simp [hx]))
      have ha : a ≠ 0 := hz a (by simp)
      have hd : d ≠ ExtVal.nan := hrow d (by simp)
      simp only [dotSkipNaN, List.map_cons, dot_cons']
      have hprod : (ExtVal.fin a * d : ExtVal) ≠ ExtVal.nan := by
        cases d with
        | nan => exact absurd rfl hd
        | pinf =>
          change ExtVal.infTimes true a ≠ _
          unfold ExtVal.infTimes; rw [if_neg ha]; split <;> simp
        | ninf =>
          change ExtVal.infTimes false a ≠ _
          unfold ExtVal.infTimes; rw [if_neg ha]; split <;> simp
        | fin q => simp [ext_fin_mul]
      split
      · exact absurd ‹_› hprod
      · rw [ih']

-- non-vacuity: a 2×2 array with one NaN; the NaN row integrates to NaN, the other to 5·1 + 7·2
example : integrate { nFace := 2, nNode := 4, nEdge := 5, gid := 1 } ([5, 7].map ExtVal.fin)
    { dims := [Dim.other 0, Dim.face], shape := [2, 2],
      data := [ExtVal.fin 1, ExtVal.fin 2, ExtVal.nan, ExtVal.fin 4], name := none, grid := 1 } =
    .ok { dims := [Dim.other 0], shape := [2], data := [ExtVal.fin 19, ExtVal.nan], name := none, grid := 1 } := by
  have hz : (0 : ExtVal) = ExtVal.fin 0 := rfl
  simp [integrate, result, integrateData, rowsOf, prodL, dot, hz, ext_fin_mul, ext_fin_add,
    ext_mul_nan, ext_nan_add]
  norm_num
-- ∞ − ∞ and ∞·0 are NaN, +∞ alone stays +∞
example : dot ([1, 1].map ExtVal.fin) [ExtVal.pinf, ExtVal.ninf] = ExtVal.nan ∧
    dot ([0, 1].map ExtVal.fin) [ExtVal.pinf, ExtVal.fin 2] = ExtVal.nan ∧
    dot ([2, 1].map ExtVal.fin) [ExtVal.pinf, ExtVal.fin 2] = ExtVal.pinf := by
  refine ⟨rfl, ?_, ?_⟩
  · show (ExtVal.infTimes true 0 + (ExtVal.fin (1 * 2) + ExtVal.fin 0) : ExtVal) = ExtVal.nan
    simp [ExtVal.infTimes]; rfl
  · show (ExtVal.infTimes true 2 + (ExtVal.fin (1 * 2) + ExtVal.fin 0) : ExtVal) = ExtVal.pinf
    simp [ExtVal.infTimes]; rfl
example : (∀ d ∈ [ExtVal.pinf, ExtVal.fin 2], d ≠ ExtVal.nan) ∧ (∀ a ∈ ([2, 1] : List Rat), a ≠ 0) := by
  constructor
  · intro d hd; simp at hd; rcases hd with rfl | rfl <;> simp
  · intro a ha; simp at ha; rcases ha with rfl | rfl <;> norm_num

end Ext

/-! ### the float tolerance of the specification is a theorem, for ANY order of summation

  `Close` (what the driver evaluates on the implementation's float output) allows
  `n_face · 2⁻⁵² · Σ|area·value|` around the exact sum.  Under the standard model of IEEE
  binary64 arithmetic (every product and every addition has relative error ≤ 2⁻⁵³; a fused
  multiply-add is the case "product error 0"; no underflow/overflow) EVERY bracketing of EVERY
  permutation of the terms — left-to-right loop, pairwise, SIMD lanes, BLAS blocks — delivers a
  value inside that tolerance.  So a `values` verdict of the check cannot be a rounding artefact of
  whichever summation order `np.einsum` picks. -/

theorem absQ_eq_abs (x : Rat) : absQ x = |x| := by
  unfold absQ
  split
  · rw [abs_of_neg ‹_›]
  · rw [abs_of_nonneg (not_lt.mp ‹_›)]

theorem sumAbs_eq_sum (a : List Rat) : ∀ r : List Rat,
    sumAbs a r = sumL ((a.zip r).map (fun p => |p.1 * p.2|)) := by
  induction a with
  | nil => intro r; simp [sumAbs, sumL]
  | cons x a ih =>
    intro r
    cases r with
    | nil => simp [sumAbs, sumL]
    | cons y r => simp only [sumAbs, List.zip_cons_cons, List.map_cons, sumL, ih r, absQ_eq_abs]

/-- unit round-off of IEEE binary64 (round to nearest): 2⁻⁵³ -/
def u64 : Rat := ulp / 2

/-- **any summation order is inside the tolerance**: if `x` is a possible binary64 result of
    summing the products `areas[f]·row[f]` in the order/bracketing `t` (any permutation, any
    tree), then `Close areas row x`. -/
theorem close_of_rounded (areas row : List Rat) (t : SumTree Rat) (x : Rat)
    (hperm : t.leaves.Perm (areas.zip row)) (hlen : row.length = areas.length)
    (hn : areas.length ≤ 2 ^ 53) (h : Rounded u64 t x) : Close areas row x := by
  have hu : (0 : Rat) ≤ u64 := by unfold u64 ulp; positivity
  have hleaves : t.leaves.length = areas.length := by
    rw [hperm.length_eq, List.length_zip, hlen, Nat.min_self]
  have hexact : t.exact = dot areas row := by
    rw [exact_eq_sum, dot_eq_sum_zip]
    exact sumL_perm (hperm.map _)
  have habs : t.absSum = sumAbs areas row := by
    rw [absSum_eq_sum, sumAbs_eq_sum]
    exact sumL_perm (hperm.map _)
  have hnu : (t.leaves.length : Rat) * u64 ≤ 1 := by
    rw [hleaves]
    have : (areas.length : Rat) ≤ 2 ^ 53 := by exact_mod_cast hn
    unfold u64 ulp
    linarith
  have := rounded_err_linear hu h hnu
  rw [hexact, habs, hleaves] at this
  unfold Close
  rw [absQ_eq_abs]
  have e : 2 * (areas.length : Rat) * u64 * sumAbs areas row
      = (areas.length : Rat) * ulp * sumAbs areas row := by unfold u64; ring
  linarith

/-- **no rounding false alarm**: whatever order of summation the implementation uses for each
    leading index, its binary64 output satisfies the `values` clause of the specification. -/
theorem spec_values_of_rounded (g : Grid) (areas : List Rat) (a r : Arr Rat)
    (h : FaceCentred g a) (ha : areas.length = g.nFace) (hn : g.nFace ≤ 2 ^ 53)
    (hr : ∀ i, i < prodL a.shape.dropLast → ∃ v t, r.data[i]? = some v ∧
      (SumTree.leaves t).Perm (areas.zip (rowAt g.nFace a.data i)) ∧ Rounded u64 t v) :
    SpecValues areas a r := by
  obtain ⟨_, hs, _, hlen, _⟩ := h
  have hshape := dropLast_getLast _ _ hs
  have hlen' : a.data.length = prodL a.shape.dropLast * g.nFace := by
    rw [hlen]; conv_lhs => rw [hshape]
    simp [prodL_append, prodL]
  intro i hi
  obtain ⟨v, t, hv, hp, hrd⟩ := hr i hi
  refine ⟨v, hv, ?_⟩
  rw [ha]
  exact close_of_rounded areas _ t v hp
    (by rw [rowAt_length _ _ _ _ hlen' hi, ha]) (by omega) hrd

/-- the left-to-right loop of the terms in face order is one of the covered orders -/
theorem close_of_rounded_loop (areas row : List Rat) (p : Rat × Rat) (qs : List (Rat × Rat))
    (hz : areas.zip row = p :: qs) (hlen : row.length = areas.length)
    (hn : areas.length ≤ 2 ^ 53) (x : Rat) (h : Rounded u64 (SumTree.chain p qs) x) :
    Close areas row x :=
  close_of_rounded areas row _ x (by rw [chain_leaves, hz]) hlen hn h

/-- non-vacuity: a pairwise bracketing of a permuted 3-term sum with three non-zero rounding
    errors, and the resulting value is inside the tolerance by `close_of_rounded` -/
example :
    let t : SumTree Rat := .add (.leaf 3 (5 / 8)) (.add (.leaf (1 / 2) 4) (.leaf 7 (-2)))
    let x : Rat := (3 * (5 / 8) * (1 + u64) + (1 / 2 * 4 * (1 + 0) + 7 * (-2) * (1 + -u64)) * (1 + u64))
      * (1 + -u64)
    Rounded u64 t x ∧ Close [1 / 2, 3, 7] [4, 5 / 8, -2] x := by
  intro t x
  have hu : |u64| ≤ u64 := by unfold u64 ulp; norm_num [abs_of_nonneg]
  have hu' : |(-u64)| ≤ u64 := by rw [abs_neg]; exact hu
  have h0 : |(0 : Rat)| ≤ u64 := by unfold u64 ulp; norm_num
  have hr : Rounded u64 t x :=
    Rounded.add _ (Rounded.leaf _ _ _ hu)
      (Rounded.add _ (Rounded.leaf _ _ _ h0) (Rounded.leaf _ _ _ hu') hu) hu'
  refine ⟨hr, close_of_rounded _ _ t x ?_ rfl (by norm_num) hr⟩
  simp only [t, SumTree.leaves, List.zip_cons_cons, List.zip_nil_right, List.cons_append,
    List.nil_append]
  exact List.Perm.swap _ _ _

/-! ### non-vacuity -/

/-- a rank-3 face-centred variable on a 2-face grid (shape 2×1×2) -/
def g2 : Grid := { nFace := 2, nNode := 4, nEdge := 5, gid := 1 }
def x3 : Arr Nat :=
  { dims := [Dim.other 0, Dim.other 1, Dim.face], shape := [2, 1, 2], data := [1, 2, 3, 4],
    name := some 3, grid := 1 }
def y3 : Arr Nat := { x3 with data := [10, 20, 30, 40] }

example : FaceCentred g2 x3 ∧ FaceCentred g2 y3 ∧ x3.shape = y3.shape := by decide
example : integrate g2 [5, 7] x3 =
    .ok { dims := [Dim.other 0, Dim.other 1], shape := [2, 1], data := [19, 43],
          name := some 3, grid := 1 } := by decide
example : integrate g2 [5, 7] (addA x3 y3) = .ok (addA (result [5, 7] x3) (result [5, 7] y3)) := by
  decide
example : integrate g2 [5, 7] (smulA 3 x3) = .ok (smulA 3 (result [5, 7] x3)) := by decide
example : integrate g2 [5, 7] (constA 1 [Dim.other 0, Dim.face] [3, 2] none 1) =
    .ok (constA 12 [Dim.other 0] [3] none 1) := by decide
example : InShape x3.shape.dropLast [1, 0] ∧ ravel x3.shape.dropLast [1, 0] = 1 ∧
    ravel x3.shape [1, 0, 1] = 3 := by decide
example : [1, 0].Perm (List.range g2.nFace) ∧
    integrate g2 (reindex [1, 0] [5, 7]) (permA [1, 0] 2 2 x3) = integrate g2 [5, 7] x3 := by
  decide
example : NodeOrEdge tetraNodeData := by decide
-- dispatch by name: the same array on grids that differ only in node/edge counts
example : integrate { nFace := 2, nNode := 2, nEdge := 2, gid := 9 } [5, 7] x3 = integrate g2 [5, 7] x3 := by
  decide
-- non-grid names are rejected for every length, also the face count
example : (∃ e, integrate g2 [5, 7] { x3 with dims := [Dim.other 0, Dim.other 1, Dim.other 2] } = .error e) :=
  ⟨.other, by decide⟩
-- the partial theorem's hypotheses are satisfiable (prism-like counts 2/4/5, node-sized unnamed data)
example : g2.nNode ≠ g2.nFace ∧ g2.nEdge ≠ g2.nFace ∧
    SizedUnnamed g2 ({ dims := [Dim.other 3], shape := [4], data := [1, 2, 3, 4], name := none, grid := 1 } : Arr Nat) := by
  decide
example : (∃ e, integrate tetra [1, 1, 1, 1] tetraNodeData = .error e) := ⟨.node, by decide⟩

/-! ### the default arguments (regenerated from `inspect.signature` on every run) -/

/-- `integrate()` with no arguments weights by the same areas as `compute_face_areas()` with no
    arguments: the two defaults coincide, so "integrating the constant 1 gives the grid's total
    area" refers to one and the same rule. -/
theorem integrate_default_rule_eq_area_default :
    Gen.Defaults.integrate_quadrature_rule = Gen.Defaults.compute_face_areas_quadrature_rule ∧
    Gen.Defaults.integrate_order = Gen.Defaults.compute_face_areas_order ∧
    Gen.Defaults.integrate_quadrature_rule = Gen.Defaults.calculate_total_face_area_quadrature_rule ∧
    Gen.Defaults.integrate_order = Gen.Defaults.calculate_total_face_area_order := by
  decide

end UxVerif.C06
