/-
  UxVerif.Model.Remap — import-free executable model for C12
  (uxarray/remap/utils.py `_remap_grid_parse`, uxarray/remap/nearest_neighbor.py,
   uxarray/remap/inverse_distance_weighted.py, the `UxDataArray.remap` accessor).

  Generic over the number type `K`: executed at `Float` by the driver, decided at `Rat` in
  examples, proved over every linear ordered field in `Props/C12.lean`.

  1. `Kind` / `Dim` / `sourceKind` / `outDims` / `outShape` / `kAdmissible`
       which source elements the data live on (REPAIRED: by the NAME of the last dimension;
       `kindByLen` = what the pinned snapshot does: by the LENGTH of the last axis), the
       dimensions and shape of the result, the `k` guard.  `…AsIs` = the pinned snapshot.
  2. `sortBy` / `kPairs` / `kNearest`
       brute-force k-nearest over a list of distances (stable insertion sort, take k): the oracle.
       The sklearn BallTree's answer is an INPUT (§4c `knnAnswerB`, `nnFrom`, `idwFrom`): judged per
       case, nothing assumed (near-ties at the selection boundary are discarded).
       §4d `wrapResult`: what the UxDataArray wrappers return (dims, shape, attached grid object).
  3. `idwWeights d p ε = (1/(dᵖ+ε)) / Σ(1/(dᵖ+ε))`, `idwValue`  — exactly
       `weights = 1/(distances**power + 1e-6); weights /= weights.sum(); (data[idx]*weights).sum()`.
       The zero-distance handling of the code IS the `+ 1e-6`; there is no other branch.
  4. `nnRow` / `idwRow` / `remapRows`   — one row (= one leading-dimension index) of the result,
       and all rows (every leading index is treated identically: `source_data[..., idx]`).
       `GridView` / `remapNN` / `remapIDW`: a remap sees the two grids only through the centre
       coordinates they report (not through identity or `Grid.__eq__`).
  5. decidable specifications evaluated by the driver on the IMPLEMENTATION's output:
       `nnSpecB`, `withinB` (convexity), `weightsOkB`.
  6. metrics (`sphDeg` = sklearn haversine reported in degrees, `chord` = Euclidean on unit
       vectors) used to produce the distance lists.
-/
namespace UxVerif.Remap

/-! ## 1. element kinds, dimensions, shapes, guards -/

inductive Kind | node | face | edge deriving DecidableEq, Repr
/-- a dimension name: the three grid dimensions `n_node`, `n_face`, `n_edge` or any other name -/
inductive Dim | node | face | edge | other (n : Nat) deriving DecidableEq, Repr

def Kind.dim : Kind → Dim
  | .node => .node | .face => .face | .edge => .edge

def Dim.kind? : Dim → Option Kind
  | .node => some .node | .face => some .face | .edge => some .edge | .other _ => none

structure Counts where
  nNode : Nat
  nFace : Nat
  nEdge : Nat
  deriving DecidableEq, Repr

def Counts.of (c : Counts) : Kind → Nat
  | .node => c.nNode | .face => c.nFace | .edge => c.nEdge

/-- `_remap_grid_parse` of the pinned snapshot: the element kind is inferred from the LENGTH of
    the last axis, nodes first, then faces, then edges (`none` = ValueError). -/
def kindByLen (c : Counts) (len : Nat) : Option Kind :=
  if len = c.nNode then some .node
  else if len = c.nFace then some .face
  else if len = c.nEdge then some .edge
  else none

/-- as-is: the dimension names are not looked at -/
def sourceKindAsIs (c : Counts) (_dims : List Dim) (len : Nat) : Option Kind := kindByLen c len

/-- REPAIRED (fixes/C12-kind-by-dim.patch): the name of the data's last dimension decides; the
    length is consulted only when that name is not a grid dimension. -/
def sourceKind (c : Counts) (dims : List Dim) (len : Nat) : Option Kind :=
  match dims.getLast? with
  | some d =>
    match d.kind? with
    | some k => some k
    | none => kindByLen c len
  | none => kindByLen c len

/-- `destination_dims = list(source.dims); destination_dims[-1] = destination_dim`
    (`none` = IndexError on a 0-d array). -/
def outDims (dims : List Dim) (dest : Kind) : Option (List Dim) :=
  if dims.isEmpty then none else some (dims.dropLast ++ [dest.dim])

/-- REPAIRED result shape (fixes/C12-single-destination.patch): leading shape, then the number of
    destination points — whatever that number is. -/
def outShape (lead : List Nat) (nDst : Nat) : List Nat := lead ++ [nDst]

/-- as-is nearest neighbour: `BallTree.query` squeezes a single query row, `_remap_grid_parse`
    squeezes again, and fancy-indexing with a 0-d index DROPS the axis. -/
def outShapeNNAsIs (lead : List Nat) (nDst : Nat) : List Nat :=
  if nDst = 1 then lead else lead ++ [nDst]

/-- as-is IDW: a single destination makes `distances` 1-d and `np.sum(weights, axis=1)` raises. -/
def outShapeIDWAsIs (lead : List Nat) (nDst : Nat) : Option (List Nat) :=
  if nDst = 1 then none else some (lead ++ [nDst])

/-- REPAIRED guard (fixes/C12-idw-k-guard.patch): `2 ≤ k ≤` number of source elements of the
    data's own kind. -/
def kAdmissible (k nSrc : Nat) : Bool := decide (2 ≤ k) && decide (k ≤ nSrc)

/-- as-is guard: `k > source_grid.n_node` raises whatever the data's kind is; then the tree
    wrapper refuses `k >` its own element count. -/
def kAcceptedAsIs (k nSrc nNode : Nat) : Bool :=
  decide (k ≤ nNode) && decide (2 ≤ k) && decide (k ≤ nSrc)

/-! ## 2. brute-force k nearest over a distance list -/

section Search
variable {K : Type} [LE K] [DecidableLE K]

/-- insert before the first entry whose distance is not smaller -/
def insertBy (x : K × Nat) : List (K × Nat) → List (K × Nat)
  | [] => [x]
  | y :: ys => if x.1 ≤ y.1 then x :: y :: ys else y :: insertBy x ys

/-- stable insertion sort of `(distance, index)` pairs by distance -/
def sortBy (l : List (K × Nat)) : List (K × Nat) := l.foldr insertBy []

/-- the `k` nearest `(distance, index)` pairs of the elements whose distances are `D`,
    nearest first (ties by index) -/
def kPairs (D : List K) (k : Nat) : List (K × Nat) := (sortBy D.zipIdx).take k

def kNearest (D : List K) (k : Nat) : List Nat := (kPairs D k).map (·.2)
def kDists (D : List K) (k : Nat) : List K := (kPairs D k).map (·.1)

/-- `data[idx]` (entries out of range are dropped; the theorems show there are none) -/
def gather (row : List K) (idx : List Nat) : List K := idx.filterMap (row[·]?)

def minL (a : K) (l : List K) : K := l.foldl (fun m x => if x ≤ m then x else m) a
def maxL (a : K) (l : List K) : K := l.foldl (fun m x => if m ≤ x then x else m) a

/-- `D[i]` is a smallest entry of `D` -/
def isMinAt (D : List K) (i : Nat) : Bool :=
  match D[i]? with
  | none => false
  | some d => D.all (fun x => decide (d ≤ x))

/-- **nearest-neighbour specification** (decidable): the value `v` is the one held by a source
    element that is nearest, i.e. whose distance is ≤ every other distance. -/
def nnSpecB [BEq K] (D row : List K) (v : K) : Bool :=
  (List.range D.length).any (fun i =>
    isMinAt D i && (match row[i]? with | some x => x == v | none => false))

/-- `R a b` for every `a` before `b` -/
def pairwiseB {α : Type} (R : α → α → Bool) : List α → Bool
  | [] => true
  | a :: l => l.all (R a) && pairwiseB R l

end Search

/-! ## 3. inverse-distance weights -/

section IDW
variable {K : Type} [Add K] [Mul K] [Div K] [OfNat K 0] [OfNat K 1]

def sumL (l : List K) : K := l.foldr (· + ·) 0

/-- `1 / (distances**power + 1e-6)`; `pw` is `fun d => d**power`, `eps` is the `1e-6`. -/
def idwRaw (pw : K → K) (eps : K) (D : List K) : List K := D.map (fun d => 1 / (pw d + eps))

/-- `weights /= np.sum(weights, axis=1, keepdims=True)` -/
def idwWeights (pw : K → K) (eps : K) (D : List K) : List K :=
  let r := idwRaw pw eps D
  r.map (· / sumL r)

def dotL (v w : List K) : K := sumL (List.zipWith (· * ·) v w)

/-- `np.sum(source_data[idx] * weights, axis=-1)` -/
def idwValue (pw : K → K) (eps : K) (D vals : List K) : K := dotL vals (idwWeights pw eps D)

end IDW

/-! ## 4. one row / all rows of a remap -/

section Rows
variable {K : Type} [LE K] [DecidableLE K]

/-- nearest neighbour, one destination point whose distances to the sources are `D`:
    `source_data[idx]` with `idx` the single nearest (`query(k=1)`); `none` if there is no source -/
def nnAt (D row : List K) : Option K :=
  match kNearest D 1 with
  | i :: _ => row[i]?
  | [] => none

/-- nearest neighbour, one row over all destination points -/
def nnRow {P : Type} (dist : P → P → K) (src dst : List P) (row : List K) : List (Option K) :=
  dst.map (fun q => nnAt (src.map (dist q)) row)

variable [Add K] [Mul K] [Div K] [OfNat K 0] [OfNat K 1]

/-- IDW, one destination point -/
def idwAt (pw : K → K) (eps : K) (k : Nat) (D row : List K) : K :=
  idwValue pw eps (kDists D k) (gather row (kNearest D k))

/-- the weight every source element receives at one destination point (what remapping the
    one-hot field of element `i` returns there): the k nearest get their IDW weight, all others 0 -/
def weightColumn (pw : K → K) (eps : K) (k : Nat) (D : List K) : List K :=
  let idx := kNearest D k
  let ws := idwWeights pw eps (kDists D k)
  (List.range D.length).map (fun i =>
    match (List.zip idx ws).find? (fun p => p.1 == i) with
    | some p => p.2
    | none => 0)

/-- every leading-dimension index is treated alike: `source_data[..., idx]` -/
def remapRows {α β : Type} (f : List α → β) (rows : List (List α)) : List β := rows.map f

/-- IDW, one row over all destination points (`dist q p` = distance from destination `q` to
    source `p`) -/
def idwRow {P : Type} (dist : P → P → K) (pw : K → K) (eps : K) (k : Nat) (src dst : List P)
    (row : List K) : List K :=
  dst.map (fun q => idwAt pw eps k (src.map (dist q)) row)

end Rows

/-! ## 4b. what a remap may look at: the centre coordinates the two grids report, nothing else -/

/-- what is observable of a `Grid` object: its identity, everything `Grid.__eq__` compares
    (`source_grid_spec`, `node_lon`, `node_lat`, `face_node_connectivity` — abstracted to a key),
    and the centre coordinates it reports for each element kind (which also depend on optional
    source-supplied tables: `edge_node_connectivity`, `face_lon/lat`, `edge_lon/lat`, …). -/
structure GridView (P : Type) where
  ident : Nat
  eqKey : Nat
  pts : Kind → List P

section Views
variable {K : Type} [LE K] [DecidableLE K] {P : Type}

/-- nearest-neighbour remap between two grids: a function of (source centre coordinates of the
    data's kind, destination centre coordinates of the requested kind) ONLY -/
def remapNN (dist : P → P → K) (S D : GridView P) (sk dk : Kind) (row : List K) : List (Option K) :=
  nnRow dist (S.pts sk) (D.pts dk) row

/-- the shape of a shortcut that is NOT the model: "same kind and the grids compare equal ⇒ every
    element is its own nearest neighbour" (see `UxVerif.C12.shortcut_on_equal_grids_wrong`) -/
def remapNNShortcut (dist : P → P → K) (S D : GridView P) (sk dk : Kind) (row : List K) :
    List (Option K) :=
  if sk = dk ∧ S.eqKey = D.eqKey then row.map some else remapNN dist S D sk dk row

variable [Add K] [Mul K] [Div K] [OfNat K 0] [OfNat K 1]

def remapIDW (dist : P → P → K) (pw : K → K) (eps : K) (k : Nat) (S D : GridView P) (sk dk : Kind)
    (row : List K) : List K :=
  idwRow dist pw eps k (S.pts sk) (D.pts dk) row

end Views

/-! ## 4c. the tree's answer as an INPUT: what the code computes from it, and its specification

  `_remap_grid_parse` hands `BallTree.query(dest_coords, k)` — for every destination point a list
  of `k` indices and their distances — to the two remappers.  Nothing is assumed about sklearn:
  the answer is observed per case (the same public call), judged by `knnAnswerB`, and the
  theorems of `Props/C12.lean` §8 derive everything else from that judgement. -/

section TreeAnswer
variable {K : Type} [LE K] [DecidableLE K] [Add K] [Sub K]

/-- **specification of one tree answer** for a destination point whose distances to the sources
    are `D`: `min k n` distinct indices, each reported distance is the distance of its index
    (within `tol`), nearest first, and no source left out is nearer than one returned. -/
def knnAnswerB (tol : K) (D : List K) (k : Nat) (idx : List Nat) (ds : List K) : Bool :=
  (idx.length == min k D.length) && (ds.length == idx.length)
  && decide idx.Nodup
  && (List.zip idx ds).all (fun p =>
        match D[p.1]? with
        | some d => decide (d - tol ≤ p.2) && decide (p.2 ≤ d + tol)
        | none => false)
  && pairwiseB (fun a b => decide (a ≤ b + tol)) ds
  && idx.all (fun i => (List.range D.length).all (fun j =>
        idx.contains j ||
          (match D[i]?, D[j]? with
           | some a, some b => decide (a ≤ b + tol)
           | _, _ => false)))

/-- `source_data[..., idx[:, 0]]` at one destination point -/
def nnFrom (idx : List Nat) (row : List K) : Option K :=
  match idx with
  | i :: _ => row[i]?
  | [] => none

variable [Mul K] [Div K] [OfNat K 0] [OfNat K 1]

/-- `np.sum(source_data[..., idx] * weights(ds), axis=-1)` at one destination point -/
def idwFrom (pw : K → K) (eps : K) (idx : List Nat) (ds row : List K) : K :=
  idwValue pw eps ds (gather row idx)

end TreeAnswer

/-! ## 4d. what the `UxDataArray` wrappers return -/

/-- a data array as far as the property speaks of it: dimension names, shape, and WHICH grid
    object it is attached to -/
structure Arr where
  dims : List Dim
  shape : List Nat
  grid : Nat
  deriving DecidableEq, Repr

/-- `UxDataArray(data=destination_data, dims=destination_dims, uxgrid=destination_grid, …)`:
    the input's dims with the last one replaced, the leading shape followed by the number of
    destination points, attached to the destination grid OBJECT — one rule, whatever the sizes
    (`none` = 0-d input). -/
def wrapResult (src : Arr) (destGrid : Nat) (dest : Kind) (nDst : Nat) : Option Arr :=
  (outDims src.dims dest).map (fun d =>
    { dims := d, shape := outShape src.shape.dropLast nDst, grid := destGrid })

/-- the shape of a fast path that is NOT the model: "dims and shape unchanged ⇒ copy the source
    variable" (keeps the SOURCE's grid; see `UxVerif.C12.fastpath_keeps_source_grid`) -/
def wrapResultFastPath (src : Arr) (destGrid : Nat) (dest : Kind) (nDst : Nat) : Option Arr :=
  match wrapResult src destGrid dest nDst with
  | some r => if r.dims = src.dims ∧ r.shape = src.shape then some src else some r
  | none => none

/-! ## 5. float-tolerant decidable specifications (driver side) -/

section Specs
variable {K : Type} [LE K] [DecidableLE K] [Add K] [Sub K]

/-- **convexity**: `v ∈ [min vals − tol, max vals + tol]`; false for no values (and for NaN) -/
def withinB (tol : K) (vals : List K) (v : K) : Bool :=
  match vals with
  | [] => false
  | x :: xs => decide (minL x xs - tol ≤ v) && decide (v ≤ maxL x xs + tol)

variable [Mul K] [Div K] [OfNat K 0] [OfNat K 1]

/-- **weights**, listed nearest first: non-negative, sum to one, never increasing with distance -/
def weightsOkB (tol : K) (ws : List K) : Bool :=
  ws.all (fun w => decide (0 ≤ w))
  && decide (1 - tol ≤ sumL ws) && decide (sumL ws ≤ 1 + tol)
  && pairwiseB (fun a b => decide (b ≤ a + tol)) ws

end Specs

/-! ## 6. metrics -/

inductive Sys | spherical | cartesian deriving DecidableEq, Repr

/-- transcendental primitives (libm at `Float`) -/
structure Fns (K : Type) where
  sin : K → K
  cos : K → K
  asin : K → K
  sqrt : K → K
  pi : K

section Chord
variable {K : Type} [Add K] [Sub K] [Mul K]

def sq (x : K) : K := x * x

/-- squared chord between two points of 3-space -/
def chordSq (a b : K × K × K) : K :=
  sq (a.1 - b.1) + sq (a.2.1 - b.2.1) + sq (a.2.2 - b.2.2)

end Chord

section Metrics
variable {K : Type} [Add K] [Sub K] [Mul K] [Div K] [OfNat K 2] [OfNat K 180]

def d2r (F : Fns K) (x : K) : K := x * (F.pi / 180)
def r2d (F : Fns K) (x : K) : K := x * (180 / F.pi)

/-- sklearn `HaversineDistance` between `(lon, lat)` points given in degrees, reported in degrees
    (`BallTree.query(..., in_radians=False)` applies `rad2deg`). -/
def sphDeg (F : Fns K) (a b : K × K) : K :=
  let lat1 := d2r F a.2; let lon1 := d2r F a.1
  let lat2 := d2r F b.2; let lon2 := d2r F b.1
  let h := sq (F.sin ((lat1 - lat2) / 2)) + F.cos lat1 * F.cos lat2 * sq (F.sin ((lon1 - lon2) / 2))
  r2d F (2 * F.asin (F.sqrt h))

def xyzOf (F : Fns K) (p : K × K) : K × K × K :=
  let lon := d2r F p.1; let lat := d2r F p.2
  (F.cos lat * F.cos lon, F.cos lat * F.sin lon, F.sin lat)

/-- Euclidean (`minkowski`, p = 2) distance between the unit vectors of two `(lon, lat)` points -/
def chord (F : Fns K) (a b : K × K) : K := F.sqrt (chordSq (xyzOf F a) (xyzOf F b))

def dist (F : Fns K) : Sys → K × K → K × K → K
  | .spherical => sphDeg F
  | .cartesian => chord F

/-- distances from the destination point `q` to every source point, in the tree's reported unit -/
def distances (F : Fns K) (sys : Sys) (src : List (K × K)) (q : K × K) : List K :=
  src.map (dist F sys q)

end Metrics

end UxVerif.Remap
