/-
  UxVerif.Model.Polys — transcription of the polygon / line exporters (C15):
  `uxarray/grid/geometry.py` (`_pad_closed_face_nodes`, `_build_polygon_shells`,
  `_build_antimeridian_face_indices`, `_grid_to_polygon_geodataframe`,
  `_build_geodataframe_with/without_antimeridian`, `_grid_to_matplotlib_polycollection`,
  `_get_polygons`, `_grid_to_matplotlib_linecollection`), the cache logic of
  `Grid.to_geodataframe / to_polycollection / to_linecollection` (`uxarray/grid/grid.py`) and the
  data re-indexing of `UxDataArray.to_geodataframe / to_polycollection` (`uxarray/core/dataarray.py`).

  What is modelled
  * §1  closed padded shells and the antimeridian test on them;
  * §2  the NumPy index algebra the exporters use: `np.delete`, `np.where(mask)[0]`, fancy indexing;
  * §3  the three `periodic_elements` policies as index maps `polygon k ↦ face`, composed with the
        non-NaN filter, and the data re-indexing;
  * §4  the decidable specification evaluated by the driver on the implementation's output;
  * §5  the three export caches + side tables as a state machine over a heap of returned frames.

  PARAMETERS (third-party behaviour, not modelled): which faces a projection maps to NaN
  (`G.nan`), into how many pieces `antimeridian.fix_polygon` cuts a face (`G.pieces`), and — since a
  projection's central longitude moves the antimeridian — which faces cross for a given projection
  (`G.am p`; §1 computes it from the shell longitudes).  Projection `0` is "no projection".

  REPAIR SWITCHES.  The conversions and the state machine take a `Repairs` record; each field is one
  proposed patch under fixes/ that changes what is modelled here:
    * `ignoreProj`  fixes/C15-ignore-honours-projection.patch — with `periodic_elements='ignore'` the non-NaN
                    positions are computed on (and index) the full face set, and the PolyCollection /
                    LineCollection vertices are the projected ones;
    * `sideRestore` fixes/C15-export-side-tables.patch — a conversion served from the cache restores the side
                    tables (`antimeridian_face_indices`, `non_nan_polygon_indices`) that belong to the cached
                    object;
    * `copyFrame`   fixes/C15-dataarray-gdf-copy.patch — `UxDataArray.to_geodataframe` attaches its column to a
                    shallow copy of the (cached) frame.
  `Repairs.all` is the code with all three patches, `Repairs.asIs` the code without them, `Repairs.current` the code
  as it stands in /repo: `ignoreProj` and `sideRestore` are committed (6127899e, a88e1270); `copyFrame` was NOT
  applied — upstream tests specify that repeated conversions return the identical cached frame — so the driver runs
  `Repairs.current` and the returned-frame finding stays listed.  Every property theorem states the switches it needs
  as hypotheses; the proved counterexamples `asis_*` in Props/C15.lean are about the code without the respective switch.
  Already committed repairs (NaN mask over both axes, projection stored in the line cache, engine kept when NaN
  polygons are filtered) are part of both.  fixes/C15-geopandas-nan-shells.patch and
  fixes/C15-polycollection-split-crossing-only.patch repair behaviour of third-party calls (shapely on NaN rings,
  antimeridian.fix_polygon on non-crossing faces) that this model treats as parameters: no switch.

  Import-free (core Lean only): linked into `drv_c15`.
-/
namespace UxVerif.Polys

/-! ## 1. closed padded shells, antimeridian faces -/

/-- `_pad_closed_face_nodes` for one face with real corners `c` in a table of width `w`:
    the corners, then the first corner repeated up to length `w + 1`. -/
def closedShell {α} (w : Nat) : List α → List α
  | [] => []
  | a :: c => (a :: c) ++ List.replicate (w - c.length) a

/-- consecutive pairs (`np.diff` looks at exactly these) -/
def adj {α} (l : List α) : List (α × α) := List.zip l l.tail

/-- `np.any(np.abs(np.diff(shell_x)) >= 180)` with the comparison abstracted as `cross` -/
def crossesShell {α} (cross : α → α → Bool) (s : List α) : Bool :=
  (adj s).any (fun p => cross p.1 p.2)

/-- cyclic boundary segments of the real corners: `(c₀,c₁) … (c_{k-1},c₀)` -/
def cyc {α} : List α → List (α × α)
  | [] => []
  | a :: c => List.zip (a :: c) (c ++ [a])

/-- the property's wording: "has an edge spanning at least 180 degrees of longitude" -/
def crossesFace {α} (cross : α → α → Bool) (c : List α) : Bool :=
  (cyc c).any (fun p => cross p.1 p.2)

/-- `_build_antimeridian_face_indices` as a flag per face -/
def amFlags {α} (cross : α → α → Bool) (w : Nat) (faces : List (List α)) : List Bool :=
  faces.map (fun c => crossesShell cross (closedShell w c))

/-- the comparison the code performs: shells are `float32`, `np.diff` stays in `float32` -/
def crossF (a b : Float) : Bool :=
  let d : Float32 := b.toFloat32 - a.toFloat32
  decide ((180 : Float32) ≤ d.abs)

/-! ## 2. NumPy index algebra -/

/-- `np.where(mask)[0]` / `np.argwhere(mask)[:,0]` for a mask over `0 … n-1` -/
def idxWhere (p : Nat → Bool) (n : Nat) : List Nat := (List.range n).filter p

/-- `np.delete(l, idx, axis=0)` -/
def deleteIdx {β} (l : List β) (idx : List Nat) : List β :=
  ((List.range l.length).filter (fun i => !idx.contains i)).filterMap (fun i => l[i]?)

/-- fancy indexing `l[idx]` (total here; every theorem that uses it bounds the indices) -/
def gather {β} (l : List β) (idx : List Nat) : List β := idx.filterMap (fun i => l[i]?)

/-- positions of the elements of `l` that satisfy `p` (`np.where(~bad)[0]` on a derived array) -/
def posWhere {β} (p : β → Bool) (l : List β) : List Nat :=
  (List.range l.length).filter (fun k => match l[k]? with | some x => p x | none => false)

/-- apply the optional non-NaN index table -/
def applyNn {β} (nn : Option (List Nat)) (l : List β) : List β :=
  match nn with
  | none => l
  | some idx => gather l idx

/-! ## 3. grids (abstract) and the pure conversion semantics -/

inductive Pe | exclude | split | ignore
deriving DecidableEq, Repr, Inhabited

/-- what the exporters see of a grid -/
structure G where
  n : Nat
  /-- face `i` crosses the antimeridian of projection `p` (`p = 0`: no projection) -/
  am : Nat → Nat → Bool
  /-- the image of face `i` under projection `p` contains a NaN -/
  nan : Nat → Nat → Bool
  /-- number of polygons `antimeridian.fix_polygon` returns for face `i` under projection `p`'s
      central longitude -/
  pieces : Nat → Nat → Nat

/-- `antimeridian_face_indices` -/
def amOf (g : G) (p : Nat) : List Nat := idxWhere (g.am p) g.n

/-- `np.delete(np.arange(n_face), antimeridian_face_indices)` -/
def keep (g : G) (p : Nat) : List Nat := deleteIdx (List.range g.n) (amOf g p)

/-- which of the proposed patches are applied (see the header) -/
structure Repairs where
  ignoreProj : Bool
  sideRestore : Bool
  copyFrame : Bool
deriving DecidableEq, Repr

def Repairs.all : Repairs := ⟨true, true, true⟩
def Repairs.asIs : Repairs := ⟨false, false, false⟩
/-- the code as it stands in /repo: `ignoreProj` and `sideRestore` are committed; the frame copy is NOT
    (upstream tests specify that repeated conversions return the identical cached frame), so the
    returned-frame finding remains — this is what the driver runs -/
def Repairs.current : Repairs := ⟨true, true, false⟩

/-- `non_nan_polygon_indices` of `'exclude'`: `None` without projection, otherwise positions IN THE ARRAY
    WITH THE CROSSING FACES DELETED of the shells without NaN -/
def nnOf (g : G) (p : Nat) : Option (List Nat) :=
  if p = 0 then none else some (posWhere (fun i => !g.nan p i) (keep g p))

/-- the same table computed on ALL faces (nothing deleted) -/
def nnAll (g : G) (p : Nat) : Option (List Nat) :=
  if p = 0 then none else some (posWhere (fun i => !g.nan p i) (List.range g.n))

/-- the table a conversion computes: as-is always the `'exclude'` one; repaired, the one that matches the
    array the policy exports -/
def nnFor (R : Repairs) (g : G) (pe : Pe) (p : Nat) : Option (List Nat) :=
  if pe = .exclude ∨ R.ignoreProj = false then nnOf g p else nnAll g p

/-- corrected_to_original_faces of the 'split' policy -/
def c2oSplit (g : G) (p : Nat) : List Nat :=
  (List.range g.n).flatMap (fun i => List.replicate (g.pieces p i) i)

/-- rows of the GeoDataFrame: polygon `k` is face `(gdfRows R g pe p)[k]` -/
def gdfRows (R : Repairs) (g : G) (pe : Pe) (p : Nat) : List Nat :=
  match pe with
  | .exclude => applyNn (nnOf g p) (keep g p)
  | .split => List.range g.n
  -- as-is: the non-NaN positions were computed on the array WITHOUT the crossing faces but
  -- index the array WITH them
  | .ignore => applyNn (nnFor R g .ignore p) (List.range g.n)

/-- data column of `UxDataArray.to_geodataframe`, given the side tables it reads back -/
def gdfData {β} (pe : Pe) (amSide : List Nat) (nn : Option (List Nat)) (vals : List β) : List β :=
  applyNn nn (if pe = .exclude then deleteIdx vals amSide else vals)

/-- PolyCollection: (polygon ↦ face, corrected_to_original_faces, projection of the vertices) -/
def polyRows (R : Repairs) (g : G) (pe : Pe) (p : Nat) : List Nat × List Nat × Nat :=
  match pe with
  | .exclude => (applyNn (nnOf g p) (keep g p), keep g p, p)
  | .split => (c2oSplit g p, c2oSplit g p, 0)
  -- as-is: 'ignore' returns the UNPROJECTED shells of all faces
  | .ignore => if R.ignoreProj then (applyNn (nnAll g p) (List.range g.n), [], p)
               else (List.range g.n, [], 0)

/-- data array of `UxDataArray.to_polycollection` -/
def polyData {β} (pe : Pe) (amSide : List Nat) (nn : Option (List Nat)) (c2o : List Nat)
    (vals : List β) : List β :=
  applyNn nn (match pe with
    | .exclude => deleteIdx vals amSide
    | .split => gather vals c2o
    | .ignore => vals)

/-- LineCollection: (ring ↦ face, projection of the vertices); 'split' never projects -/
def lineRows (R : Repairs) (g : G) (pe : Pe) (p : Nat) : List Nat × Nat :=
  match pe with
  | .exclude => (applyNn (nnOf g p) (keep g p), p)
  | .split => (c2oSplit g p, 0)
  | .ignore => if R.ignoreProj then (applyNn (nnAll g p) (List.range g.n), p)
               else (List.range g.n, 0)

/-! ## 4. specification (decidable; the driver evaluates it on the implementation's output) -/

/-- one observed conversion, as reconstructed by the harness from the returned object:
    `rows[k]` = the face whose corners are the vertices of polygon `k` (`-1`: no such face),
    `tag` = coordinate system all vertices are in (`0` lon/lat, `p` projected, `-1` neither),
    `dataOut` = the data attached to polygon `k`. -/
structure Obs (β : Type) where
  err : Bool
  rows : List Int
  tag : Int
  dataOut : Option (List β)
deriving Repr, DecidableEq

structure Case (β : Type) where
  /-- 0 GeoDataFrame, 1 PolyCollection, 2 LineCollection -/
  kind : Nat
  pe : Pe
  proj : Nat
  n : Nat
  am : List Bool
  nan : List Bool
  dataIn : List β

def flag (l : List Bool) (i : Nat) : Bool := l.getD i false

/-- 'split' with an explicit projection is documented as unsupported for frames and polygons -/
def Unsupported {β} (c : Case β) : Prop := c.pe = .split ∧ c.proj ≠ 0 ∧ c.kind ≠ 2

/-- NaN faces can only be missing when the vertices really are projected -/
def nanEff {β} (c : Case β) (tag : Int) (i : Nat) : Bool :=
  if tag = 0 then false else flag c.nan i

/-- the coordinate system the vertices have to be in: lon/lat without projection and for the pieces of
    `'split'` (only the LineCollection accepts it with a projection, and documents that it does not project),
    otherwise the requested projection -/
def expTag {β} (c : Case β) : Int :=
  if c.proj = 0 ∨ c.pe = .split then 0 else Int.ofNat c.proj

/-- every polygon is a face, and all vertices are the face's corners in the requested coordinate system -/
def VerticesOK {β} (c : Case β) (o : Obs β) : Prop :=
  (∀ r ∈ o.rows, 0 ≤ r ∧ r < c.n) ∧ o.tag = expTag c

/-- no face is exported twice (except the pieces of a split face) -/
def NoRepeat {β} (c : Case β) (o : Obs β) : Prop :=
  (c.pe = .split ∧ c.kind ≠ 0) ∨ o.rows.Nodup

/-- the polygon ↦ face map each policy promises -/
def FaceMapOK {β} (c : Case β) (o : Obs β) : Prop :=
  match c.pe with
  | .exclude =>
      o.rows = ((List.range c.n).filter (fun i => !flag c.am i && !nanEff c o.tag i)).map Int.ofNat
  | .ignore =>
      o.rows = ((List.range c.n).filter (fun i => !nanEff c o.tag i)).map Int.ofNat
  | .split =>
      if c.kind = 0 then o.rows = (List.range c.n).map Int.ofNat
      else o.rows.Pairwise (· ≤ ·) ∧ ∀ i, i < c.n → Int.ofNat i ∈ o.rows

/-- each data value sits on a polygon of its own face -/
def DataOK {β} [DecidableEq β] (c : Case β) (o : Obs β) : Prop :=
  match o.dataOut with
  | none => True
  | some d => d.map some = o.rows.map (fun r => if r < 0 then none else c.dataIn[r.toNat]?)

def Spec {β} [DecidableEq β] (c : Case β) (o : Obs β) : Prop :=
  Unsupported c ∨
  (o.err = false ∧ VerticesOK c o ∧ NoRepeat c o ∧ FaceMapOK c o ∧ DataOK c o)

instance {β} (c : Case β) : Decidable (Unsupported c) := by unfold Unsupported; infer_instance
instance {β} (c : Case β) (o : Obs β) : Decidable (VerticesOK c o) := by
  unfold VerticesOK; infer_instance
instance {β} (c : Case β) (o : Obs β) : Decidable (NoRepeat c o) := by
  unfold NoRepeat; infer_instance
instance {β} (c : Case β) (o : Obs β) : Decidable (FaceMapOK c o) := by
  unfold FaceMapOK
  cases c.pe <;> simp only <;> infer_instance
instance {β} [DecidableEq β] (c : Case β) (o : Obs β) : Decidable (DataOK c o) := by
  unfold DataOK
  cases o.dataOut <;> simp only <;> infer_instance
instance {β} [DecidableEq β] (c : Case β) (o : Obs β) : Decidable (Spec c o) := by
  unfold Spec; infer_instance

/-- which clauses fail (for signatures and replay files) -/
def failing {β} [DecidableEq β] (c : Case β) (o : Obs β) : List String :=
  if Unsupported c then [] else
  if o.err then ["raises"] else
  (if VerticesOK c o then [] else ["vertices"]) ++
  (if NoRepeat c o then [] else ["polygon_repeated"]) ++
  (if FaceMapOK c o then [] else ["polygon_face_map"]) ++
  (if DataOK c o then [] else ["data_follow"])

/-! ## 5. the export caches as a state machine -/

structure Key where
  pe : Pe
  proj : Nat
  eng : Nat
deriving DecidableEq, Repr

/-- a GeoDataFrame object: geometry (as the face of every row), coordinate system, engine, and
    the data columns written into it so far -/
structure Frame (β : Type) where
  rows : List Nat
  tag : Nat
  eng : Nat
  cols : List (Nat × List β)
deriving Repr, DecidableEq

/-- cached frame + the side tables that belong to it (`am` is only read back when `sideRestore`) -/
structure GdfEntry where
  key : Key
  id : Nat
  nn : Option (List Nat)
  am : List Nat
deriving Repr, DecidableEq

/-- cached collection + the side tables that belong to it (only read back when `sideRestore`) -/
structure PolyEntry where
  pe : Pe
  proj : Nat
  rows : List Nat
  c2o : List Nat
  tag : Nat
  nn : Option (List Nat)
  am : List Nat
deriving Repr, DecidableEq

structure LineEntry where
  pe : Pe
  proj : Nat
  rows : List Nat
  tag : Nat
deriving Repr, DecidableEq

/-- `Grid._gdf_cached_parameters`, `_poly_collection_cached_parameters`,
    `_line_collection_cached_parameters` and the frames handed out so far -/
structure St (β : Type) where
  heap : List (Frame β)
  gdf : Option GdfEntry
  gdfAm : List Nat
  poly : Option PolyEntry
  polyNn : Option (List Nat)
  polyAm : List Nat
  line : Option LineEntry
deriving Repr

def St.init {β} : St β :=
  { heap := [], gdf := none, gdfAm := [], poly := none, polyNn := none, polyAm := [], line := none }

inductive Op (β : Type)
  | gridGdf (k : Key) (cache override : Bool)
  | daGdf (var : Nat) (vals : List β) (k : Key) (cache override : Bool)
  | gridPoly (pe : Pe) (proj : Nat) (cache override : Bool)
  | daPoly (vals : List β) (pe : Pe) (proj : Nat) (cache override : Bool)
  | gridLine (pe : Pe) (proj : Nat) (cache override : Bool)
deriving Repr

inductive Ret (β : Type)
  /-- a reference to a frame of the heap (frames are shared with the cache) -/
  | frame (id : Nat)
  /-- PolyCollections are deep-copied on the way out: a value -/
  | poly (rows : List Nat) (tag : Nat) (data : Option (List β))
  | line (rows : List Nat) (tag : Nat)
  | error
deriving Repr, DecidableEq

def Op.cache {β} : Op β → Bool
  | .gridGdf _ c _ => c
  | .daGdf _ _ _ c _ => c
  | .gridPoly _ _ c _ => c
  | .daPoly _ _ _ c _ => c
  | .gridLine _ _ c _ => c

/-- compute a fresh frame; the side table is written by every computation, the entry only when caching -/
def gdfCompute {β} (R : Repairs) (g : G) (s : St β) (k : Key) (cache : Bool) :
    St β × Option (Nat × Option (List Nat)) :=
  let nn := nnFor R g k.pe k.proj
  let id := s.heap.length
  let fr : Frame β := { rows := gdfRows R g k.pe k.proj, tag := k.proj, eng := k.eng, cols := [] }
  ({ s with heap := s.heap ++ [fr], gdfAm := amOf g k.proj,
            gdf := if cache then some ⟨k, id, nn, amOf g k.proj⟩ else s.gdf },
   some (id, nn))

/-- `Grid.to_geodataframe(..., return_non_nan_polygon_indices=True)` -/
def gdfCore {β} (R : Repairs) (g : G) (s : St β) (k : Key) (cache override : Bool) :
    St β × Option (Nat × Option (List Nat)) :=
  if k.pe = .split ∧ k.proj ≠ 0 then (s, none)
  else match s.gdf with
    | some e =>
        if e.key = k ∧ override = false then
          -- served from the cache; repaired: the side table of the cached frame is restored
          ({ s with gdfAm := if R.sideRestore then e.am else s.gdfAm }, some (e.id, e.nn))
        else gdfCompute R g s k cache
    | none => gdfCompute R g s k cache

/-- `gdf[var_name] = _data` -/
def setCol {β} (cols : List (Nat × List β)) (v : Nat) (d : List β) : List (Nat × List β) :=
  if cols.any (fun c => c.1 == v) then cols.map (fun c => if c.1 == v then (v, d) else c)
  else cols ++ [(v, d)]

def writeCol {β} (heap : List (Frame β)) (id v : Nat) (d : List β) : List (Frame β) :=
  match heap[id]? with
  | some fr => heap.set id { fr with cols := setCol fr.cols v d }
  | none => heap

/-- repaired `gdf = gdf.copy(deep=False); gdf[var_name] = _data`: a NEW frame (next free address) that shares
    the geometry; returns the heap and the address of the frame handed out -/
def attachCol {β} (R : Repairs) (heap : List (Frame β)) (id v : Nat) (d : List β) :
    List (Frame β) × Nat :=
  if R.copyFrame then
    match heap[id]? with
    | some fr => (heap ++ [{ fr with cols := setCol fr.cols v d }], heap.length)
    | none => (heap, id)
  else (writeCol heap id v d, id)

def polyCompute {β} (R : Repairs) (g : G) (s : St β) (pe : Pe) (p : Nat) (cache : Bool) :
    St β × Option (List Nat × List Nat × Nat) :=
  let r := polyRows R g pe p
  let nn := nnFor R g pe p
  ({ s with polyNn := nn, polyAm := amOf g p,
            poly := if cache then some ⟨pe, p, r.1, r.2.1, r.2.2, nn, amOf g p⟩ else s.poly },
   some r)

/-- `Grid.to_polycollection(..., return_indices=True)` -/
def polyCore {β} (R : Repairs) (g : G) (s : St β) (pe : Pe) (p : Nat) (cache override : Bool) :
    St β × Option (List Nat × List Nat × Nat) :=
  match s.poly with
  | some e =>
      if e.pe = pe ∧ e.proj = p ∧ override = false then
        ({ s with polyNn := if R.sideRestore then e.nn else s.polyNn,
                  polyAm := if R.sideRestore then e.am else s.polyAm },
         some (e.rows, e.c2o, e.tag))
      else if pe = .split ∧ p ≠ 0 then (s, none) else polyCompute R g s pe p cache
  | none => if pe = .split ∧ p ≠ 0 then (s, none) else polyCompute R g s pe p cache

def lineCompute {β} (R : Repairs) (g : G) (s : St β) (pe : Pe) (p : Nat) (cache : Bool) :
    St β × List Nat × Nat :=
  let r := lineRows R g pe p
  ({ s with line := if cache then some ⟨pe, p, r.1, r.2⟩ else s.line }, r)

def lineCore {β} (R : Repairs) (g : G) (s : St β) (pe : Pe) (p : Nat) (cache override : Bool) :
    St β × List Nat × Nat :=
  match s.line with
  | some e => if e.pe = pe ∧ e.proj = p ∧ override = false then (s, e.rows, e.tag)
              else lineCompute R g s pe p cache
  | none => lineCompute R g s pe p cache

def step {β} (R : Repairs) (g : G) (s : St β) : Op β → St β × Ret β
  | .gridGdf k c o =>
      match gdfCore R g s k c o with
      | (s1, some (id, _)) => (s1, .frame id)
      | (s1, none) => (s1, .error)
  | .daGdf v vals k c o =>
      if vals.length ≠ g.n then (s, .error) else
      match gdfCore R g s k c o with
      | (s1, some (id, nn)) =>
          let r := attachCol R s1.heap id v (gdfData k.pe s1.gdfAm nn vals)
          ({ s1 with heap := r.1 }, .frame r.2)
      | (s1, none) => (s1, .error)
  | .gridPoly pe p c o =>
      match polyCore R g s pe p c o with
      | (s1, some (rows, _, tag)) => (s1, .poly rows tag none)
      | (s1, none) => (s1, .error)
  | .daPoly vals pe p c o =>
      if vals.length ≠ g.n then (s, .error) else
      match polyCore R g s pe p c o with
      | (s1, some (rows, c2o, tag)) =>
          (s1, .poly rows tag (some (polyData pe s1.polyAm s1.polyNn c2o vals)))
      | (s1, none) => (s1, .error)
  | .gridLine pe p c o =>
      match lineCore R g s pe p c o with
      | (s1, rows, tag) => (s1, .line rows tag)

/-- run a history, collecting what every conversion returned -/
def run {β} (R : Repairs) (g : G) : St β → List (Op β) → St β × List (Ret β)
  | s, [] => (s, [])
  | s, op :: ops =>
    let r := step R g s op
    let rest := run R g r.1 ops
    (rest.1, r.2 :: rest.2)

/-- look a column up by variable name -/
def col {β} (cols : List (Nat × List β)) (v : Nat) : Option (List β) :=
  match cols.find? (fun c => c.1 == v) with
  | some c => some c.2
  | none => none

/-- what the caller sees of a returned object at the moment it is returned: geometry, coordinate
    system and (for a data-array conversion) its own data column -/
structure View (β : Type) where
  err : Bool
  rows : List Nat
  tag : Nat
  data : Option (List β)
deriving Repr, DecidableEq

def View.error {β} : View β := { err := true, rows := [], tag := 0, data := none }

def view {β} (s : St β) (op : Op β) : Ret β → View β
  | .frame id =>
      match s.heap[id]? with
      | some fr =>
          { err := false, rows := fr.rows, tag := fr.tag,
            data := match op with
              | .daGdf v _ _ _ _ => col fr.cols v
              | _ => none }
      | none => View.error
  | .poly rows tag data => { err := false, rows := rows, tag := tag, data := data }
  | .line rows tag => { err := false, rows := rows, tag := tag, data := none }
  | .error => View.error

/-- the view a conversion has according to its ARGUMENTS ALONE (closed form, no state) -/
def pureView {β} (R : Repairs) (g : G) : Op β → View β
  | .gridGdf k _ _ =>
      if k.pe = .split ∧ k.proj ≠ 0 then View.error
      else { err := false, rows := gdfRows R g k.pe k.proj, tag := k.proj, data := none }
  | .daGdf _ vals k _ _ =>
      if vals.length ≠ g.n then View.error
      else if k.pe = .split ∧ k.proj ≠ 0 then View.error
      else { err := false, rows := gdfRows R g k.pe k.proj, tag := k.proj,
             data := some (gdfData k.pe (amOf g k.proj) (nnFor R g k.pe k.proj) vals) }
  | .gridPoly pe p _ _ =>
      if pe = .split ∧ p ≠ 0 then View.error
      else { err := false, rows := (polyRows R g pe p).1, tag := (polyRows R g pe p).2.2, data := none }
  | .daPoly vals pe p _ _ =>
      if vals.length ≠ g.n then View.error
      else if pe = .split ∧ p ≠ 0 then View.error
      else { err := false, rows := (polyRows R g pe p).1, tag := (polyRows R g pe p).2.2,
             data := some (polyData pe (amOf g p) (nnFor R g pe p) (polyRows R g pe p).2.1 vals) }
  | .gridLine pe p _ _ =>
      { err := false, rows := (lineRows R g pe p).1, tag := (lineRows R g pe p).2, data := none }

/-- the view of the conversion `op` made after the history `h` on a new grid -/
def viewAfter {β} (R : Repairs) (g : G) (h : List (Op β)) (op : Op β) : View β :=
  let s := (run R g St.init h).1
  let r := step R g s op
  view r.1 op r.2

/-- `Grid.antimeridian_face_indices` (lazy property, `_populate_antimeridian_face_indices`): computed from the
    grid's OWN shells — no projection, hence `p = 0` — and memoised in its own cell.  It reads none of the
    exporters' cache cells or side tables: the state is an argument only to say so. -/
def amGetter {β} (g : G) (_s : St β) : List Nat := amOf g 0

/-- what a getter that reused the exporters' side table would return (regression witness only): the table
    left by the latest GeoDataFrame conversion, computed on longitudes shifted by that conversion's projection -/
def amGetterReusing {β} (g : G) (s : St β) : List Nat :=
  if s.heap.length = 0 then amOf g 0 else s.gdfAm

/-- kind of a conversion for the specification -/
def Op.kind {β} : Op β → Nat
  | .gridGdf .. => 0
  | .daGdf .. => 0
  | .gridPoly .. => 1
  | .daPoly .. => 1
  | .gridLine .. => 2

def Op.pe {β} : Op β → Pe
  | .gridGdf k _ _ => k.pe
  | .daGdf _ _ k _ _ => k.pe
  | .gridPoly pe _ _ _ => pe
  | .daPoly _ pe _ _ _ => pe
  | .gridLine pe _ _ _ => pe

def Op.proj {β} : Op β → Nat
  | .gridGdf k _ _ => k.proj
  | .daGdf _ _ k _ _ => k.proj
  | .gridPoly _ p _ _ => p
  | .daPoly _ _ p _ _ => p
  | .gridLine _ p _ _ => p

def Op.vals {β} : Op β → List β
  | .daGdf _ vals _ _ _ => vals
  | .daPoly vals _ _ _ _ => vals
  | _ => []

/-- the specification case of a conversion -/
def caseOf {β} (g : G) (op : Op β) : Case β :=
  { kind := op.kind, pe := op.pe, proj := op.proj, n := g.n,
    am := (List.range g.n).map (g.am op.proj), nan := (List.range g.n).map (g.nan op.proj),
    dataIn := op.vals }

def obsOf {β} (v : View β) : Obs β :=
  { err := v.err, rows := v.rows.map Int.ofNat, tag := Int.ofNat v.tag, dataOut := v.data }

end UxVerif.Polys
