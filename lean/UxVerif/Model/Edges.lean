/-
  UxVerif.Model.Edges — transcription of `uxarray/grid/connectivity.py`
  (`close_face_nodes`, `_build_n_nodes_per_face`, `_build_edge_node_connectivity`,
   `_build_face_edge_connectivity`) and the C02 specification.
-/
import UxVerif.Model.Basic

namespace UxVerif.Edges
open UxVerif

/-- `close_face_nodes` for one row: append one `FILL` column, then overwrite the first
    `FILL` with the row's first entry (`np.put(..., first_fv_idx, first_node_value)`). -/
def closeRow (r : List Int) : List Int :=
  let c := r ++ [FILL]
  c.set (c.idxOf FILL) (r.headD FILL)

/-- `_build_n_nodes_per_face`: index of the first `FILL` in the row extended by one `FILL`. -/
def nNodesRow (r : List Int) : Nat := (r ++ [FILL]).idxOf FILL

def nNodesPerFace (t : Table) : List Nat := t.map nNodesRow

/-- the `w` sorted pairs of a closed row:
    `edge_nodes[:,0] = padded[:, :-1]`, `edge_nodes[:,1] = padded[:, 1:]`, `sort(axis=1)`. -/
def rowPairs (r : List Int) : List (Int × Int) :=
  let c := closeRow r
  (List.zip c c.tail).map sortPair

def allPairs (t : Table) : List (Int × Int) := t.flatMap rowPairs

def hasFill (p : Int × Int) : Bool := p.1 == FILL || p.2 == FILL

/-- `edge_nodes_unique` before the fill rows are dropped. -/
def uniqAll (t : Table) : List (Int × Int) := uniqPair (allPairs t)

/-- `edge_node_connectivity`. -/
def edges (t : Table) : List (Int × Int) := (uniqAll t).filter (fun p => !hasFill p)

/-- renumbering of one inverse index: `FILL` if it pointed at a fill row, otherwise minus the
    number of fill rows at positions `≤ i` (`np.searchsorted(indices_to_update, i, 'right')`). -/
def renum (u : List (Int × Int)) (i : Nat) : Int :=
  match u[i]? with
  | none => FILL
  | some p =>
    if hasFill p then FILL
    else Int.ofNat (i - ((u.take (i + 1)).filter hasFill).length)

/-- `face_edge_connectivity` (`inverse_indices.reshape(n_face, n_max_face_nodes)`). -/
def faceEdges (t : Table) : Table :=
  let u := uniqAll t
  t.map (fun r => (rowPairs r).map (fun p => renum u (u.idxOf p)))

structure Out where
  edges : List (Int × Int)
  faceEdges : Table
  nPerFace : List Nat
deriving Repr, DecidableEq

def build (t : Table) : Out :=
  { edges := edges t, faceEdges := faceEdges t, nPerFace := nNodesPerFace t }

/-! ### Specification (C02) — decidable, evaluated by the driver on the implementation's
    output and proved of `build` in `Props/C02.lean`. -/

/-- the boundary segments of the face stored in row `r`, as unordered (sorted) pairs. -/
def rowSegs (r : List Int) : List (Int × Int) := (segs (faceOf r)).map sortPair

/-- every listed edge is a boundary segment of some face, has no padding. -/
def EdgesSound (t : Table) (E : List (Int × Int)) : Prop :=
  ∀ e ∈ E, e.1 ≠ FILL ∧ e.2 ≠ FILL ∧ ∃ r ∈ t, sortPair e ∈ rowSegs r

/-- every boundary segment of every face is listed. -/
def EdgesComplete (t : Table) (E : List (Int × Int)) : Prop :=
  ∀ r ∈ t, ∀ s ∈ rowSegs r, s ∈ E.map sortPair

/-- … exactly once (as unordered pairs). -/
def EdgesOnce (E : List (Int × Int)) : Prop := (E.map sortPair).Nodup

/-- row `fe` is the face-edge row of face row `r` of width `w`. -/
def FaceEdgeRow (E : List (Int × Int)) (w : Nat) (r fe : List Int) : Prop :=
  fe.length = w ∧
  ∀ j, j < w →
    if j < (faceOf r).length then
      ∃ s ∈ (rowSegs r)[j]?, ∃ e ∈ getI? E (entry fe j), sortPair e = s
    else entry fe j = FILL

def FaceEdgesOK (t : Table) (w : Nat) (E : List (Int × Int)) (FE : Table) : Prop :=
  FE.length = t.length ∧
  ∀ i, i < t.length → FaceEdgeRow E w (rowAt t i) (rowAt FE i)

def NPerFaceOK (t : Table) (N : List Nat) : Prop :=
  N = t.map (fun r => (faceOf r).length)

def Spec (t : Table) (w : Nat) (o : Out) : Prop :=
  EdgesSound t o.edges ∧ EdgesComplete t o.edges ∧ EdgesOnce o.edges ∧
  FaceEdgesOK t w o.edges o.faceEdges ∧ NPerFaceOK t o.nPerFace

instance (t : Table) (E) : Decidable (EdgesSound t E) := by unfold EdgesSound; infer_instance
instance (t : Table) (E) : Decidable (EdgesComplete t E) := by unfold EdgesComplete; infer_instance
instance (E) : Decidable (EdgesOnce E) := by unfold EdgesOnce; infer_instance
instance (E w r fe) : Decidable (FaceEdgeRow E w r fe) := by unfold FaceEdgeRow; infer_instance
instance (t w E FE) : Decidable (FaceEdgesOK t w E FE) := by unfold FaceEdgesOK; infer_instance
instance (t N) : Decidable (NPerFaceOK t N) := by unfold NPerFaceOK; infer_instance
instance (t w o) : Decidable (Spec t w o) := by unfold Spec; infer_instance

/-- which clauses fail (for replay files). -/
def failing (t : Table) (w : Nat) (o : Out) : List String :=
  (if EdgesSound t o.edges then [] else ["edges_sound"]) ++
  (if EdgesComplete t o.edges then [] else ["edges_complete"]) ++
  (if EdgesOnce o.edges then [] else ["edges_once"]) ++
  (if FaceEdgesOK t w o.edges o.faceEdges then [] else ["faceEdge_points_at"]) ++
  (if NPerFaceOK t o.nPerFace then [] else ["nNodesPerFace"])

/-! ### a source-supplied `edge_node_connectivity` (`_populate_face_edge_connectivity` when the
    stored table has no `inverse_indices` side table, `_inverse_indices_from_edge_nodes`)

    The supplied table `G` is KEPT (edge coordinates, edge data and the other edge tables follow its
    numbering) and every face slot is looked up in it; the rows of `G` may list the larger node
    first (`np.sort(edge_nodes, axis=1)`).  When some edge of a face is not listed the table is
    re-derived (`build`). -/

/-- position of the first row of `G` joining the two nodes of the sorted pair `p`
    (`order[searchsorted(given_key[order], key)]` with a stable `argsort`) -/
def lookupIn (G : List (Int × Int)) (p : Int × Int) : Nat := (G.map sortPair).idxOf p

/-- `inverse_indices is not None`: both tables non-empty and every derived edge is listed -/
def coversGiven (G : List (Int × Int)) (t : Table) : Bool :=
  !(edges t).isEmpty && !G.isEmpty && (edges t).all (fun p => (G.map sortPair).contains p)

/-- `face_edge_connectivity` indexing INTO the supplied table -/
def faceEdgesInto (G : List (Int × Int)) (t : Table) : Table :=
  t.map (fun r => (rowPairs r).map (fun p => if hasFill p then FILL else Int.ofNat (lookupIn G p)))

def buildGiven (G : List (Int × Int)) (t : Table) : Out :=
  if coversGiven G t then { edges := G, faceEdges := faceEdgesInto G t, nPerFace := nNodesPerFace t }
  else build t

/-- clauses failing for a grid whose source supplied `G`: the C02 clauses on the grid's own tables,
    plus "the supplied table is the grid's table" whenever it lists every edge of the faces -/
def failingGiven (t : Table) (w : Nat) (G : List (Int × Int)) (o : Out) : List String :=
  failing t w o ++ (if coversGiven G t && !(o.edges == G) then ["supplied_table_kept"] else [])

/-- standard form: rectangular of width `w`, every row is nonnegative indices `< n` followed
    only by `FILL`, at least one real corner. -/
def StdRow (n w : Nat) (r : List Int) : Prop :=
  r.length = w ∧ 0 < (faceOf r).length ∧
  (∀ x ∈ faceOf r, 0 ≤ x ∧ x < n) ∧ (∀ x ∈ r.drop (faceOf r).length, x = FILL)

def StdForm (n w : Nat) (t : Table) : Prop := ∀ r ∈ t, StdRow n w r

instance (n w r) : Decidable (StdRow n w r) := by unfold StdRow; infer_instance
instance (n w t) : Decidable (StdForm n w t) := by unfold StdForm; infer_instance

end UxVerif.Edges
