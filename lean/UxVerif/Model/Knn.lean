/-
  UxVerif.Model.Knn — import-free executable model for C11
  (uxarray/grid/neighbors.py `BallTree` / `KDTree`, uxarray/grid/grid.py `get_ball_tree` /
  `get_kd_tree`).

  Everything is generic over the number type `K` (executed at `Float` by the driver, proved at
  `ℝ` / `Int` / any type carrying a total transitive comparison in `Props/C11.lean`):

  * `sortBy` / `bruteKnn` / `bruteRadius`  — brute-force search over a list of distances
      (stable insertion sort, take `k`; filter `d ≤ r`).  The sklearn trees are an external
      parameter, ASSUMED to return what brute force returns (validated by every run).
  * `knnSpecB` / `radiusSpecB`             — the decidable specification evaluated by the
      driver on the IMPLEMENTATION's index output.
  * `dist`                                 — the metrics (haversine, l2 = chord / planar, l1, l∞).
  * `treePoint`, `prepQuery`, `reportDist`, `radiusIn`, guards — what the wrappers do around
      the sklearn call: (lat, lon) radians or xyz tree rows, lon/lat flip for haversine,
      deg→rad, result unit conversion, radius unit conversion, `k` / `r` guards.
  * `getTree` / `runReqs`                  — the tree-cache state machine of `Grid.get_*_tree`
      (`Repaired` = proposed fix, `AsIs` = what /repo does), and `reflects`.
-/
namespace UxVerif.Knn

/-! ## 1. brute-force k-nearest / radius search over a distance list -/

section Search
variable {K : Type}

/-- insert `x` before the first entry whose key is not smaller (stable for `foldr`). -/
def insertBy (le : K → K → Bool) (x : K × Nat) : List (K × Nat) → List (K × Nat)
  | [] => [x]
  | y :: ys => if le x.1 y.1 then x :: y :: ys else y :: insertBy le x ys

/-- stable insertion sort by the first component. -/
def sortBy (le : K → K → Bool) (l : List (K × Nat)) : List (K × Nat) :=
  l.foldr (insertBy le) []

/-- `k` nearest of the elements whose distances to the query are `D` (element `i` ↦ `D[i]`):
    `(distance, index)` pairs, nearest first, ties by index. -/
def bruteKnn (le : K → K → Bool) (D : List K) (k : Nat) : List (K × Nat) :=
  (sortBy le D.zipIdx).take k

/-- all elements within `r` (ascending index). -/
def bruteRadius (le : K → K → Bool) (D : List K) (r : K) : List (K × Nat) :=
  D.zipIdx.filter (fun p => le p.1 r)

/-- `a ≤ b` on optional distances; absent ⇒ false. -/
def leO (le : K → K → Bool) : Option K → Option K → Bool
  | some a, some b => le a b
  | _, _ => false

/-- `R a b` for every `a` before `b` in the list. -/
def pairwiseB {α : Type} (R : α → α → Bool) : List α → Bool
  | [] => true
  | a :: l => l.all (R a) && pairwiseB R l

/-- nearest first: for every `i` listed before `j`, `D[i] ≤ D[j]`. -/
def sortedIdx (le : K → K → Bool) (D : List K) (out : List Nat) : Bool :=
  pairwiseB (fun i j => leO le D[i]? D[j]?) out

/-- **Specification of a k-nearest answer** (indices only), decidable:
    right length, valid distinct indices, nearest first, and every element that was NOT
    returned is at least as far as every returned one. -/
def knnSpecB (le : K → K → Bool) (D : List K) (k : Nat) (out : List Nat) : Bool :=
  (out.length == min k D.length)
  && out.all (fun i => decide (i < D.length))
  && decide out.Nodup
  && sortedIdx le D out
  && out.all (fun i => (List.range D.length).all (fun j => out.contains j || leO le D[i]? D[j]?))

/-- **Specification of a radius answer** (order free): valid distinct indices and
    `j` returned ⇔ `D[j] ≤ r`. -/
def radiusSpecB (le : K → K → Bool) (D : List K) (r : K) (out : List Nat) : Bool :=
  out.all (fun i => decide (i < D.length))
  && decide out.Nodup
  && (List.range D.length).all (fun j => out.contains j == leO le D[j]? (some r))

/-- comparison up to a tolerance: `a ≤ b + eps`.  `knnSpecB (leTol le eps)` is the k-nearest
    specification "up to near-ties": nearest first and minimal up to `eps` (any tie-breaking among
    elements closer together than `eps` is accepted).  With `eps = 0` it is the exact spec. -/
def leTol [Add K] (le : K → K → Bool) (eps : K) (a b : K) : Bool := le a (b + eps)

/-- radius specification up to a tolerance at the boundary: everything returned is within
    `r + eps`, everything within `r - eps` (i.e. `d + eps ≤ r`) is returned. -/
def radiusSpecTolB [Add K] (le : K → K → Bool) (eps : K) (D : List K) (r : K) (out : List Nat) : Bool :=
  out.all (fun i => decide (i < D.length))
  && decide out.Nodup
  && out.all (fun j => leO le D[j]? (some (r + eps)))
  && (List.range D.length).all (fun j => out.contains j || !(leO le (D[j]?.map (· + eps)) (some r)))

end Search

/-! ## 2. metrics, query preparation, units -/

inductive Metric | haversine | l2 | l1 | linf deriving DecidableEq, Repr
inductive Sys | spherical | cartesian deriving DecidableEq, Repr
inductive Elem | nodes | faces | edges deriving DecidableEq, Repr
inductive TreeKind | ball | kd deriving DecidableEq, Repr

/-- the transcendental / order primitives the metrics need (libm at `Float`, `Real.*` at `ℝ`). -/
structure Fns (K : Type) where
  sin : K → K
  cos : K → K
  asin : K → K
  sqrt : K → K
  abs : K → K
  max : K → K → K
  pi : K

section Metrics
variable {K : Type} [Add K] [Sub K] [Mul K] [Div K] [OfNat K 0] [OfNat K 2] [OfNat K 180]

def sq (x : K) : K := x * x
def sum (l : List K) : K := l.foldr (· + ·) 0

/-- `np.deg2rad` / `np.rad2deg`. -/
def d2r (F : Fns K) (x : K) : K := x * (F.pi / 180)
def r2d (F : Fns K) (x : K) : K := x * (180 / F.pi)

/-- sklearn `EuclideanDistance` (also `minkowski`, p = 2). -/
def l2 (F : Fns K) (a b : List K) : K := F.sqrt (sum (List.zipWith (fun x y => sq (x - y)) a b))
/-- sklearn `ManhattanDistance`. -/
def l1 (F : Fns K) (a b : List K) : K := sum (List.zipWith (fun x y => F.abs (x - y)) a b)
/-- sklearn `ChebyshevDistance`. -/
def linf (F : Fns K) (a b : List K) : K :=
  (List.zipWith (fun x y => F.abs (x - y)) a b).foldr F.max 0

/-- the haversine argument `sin²(Δφ/2) + cos φ₁ cos φ₂ sin²(Δλ/2)`. -/
def havArg (F : Fns K) (lat1 lon1 lat2 lon2 : K) : K :=
  sq (F.sin ((lat1 - lat2) / 2)) + F.cos lat1 * F.cos lat2 * sq (F.sin ((lon1 - lon2) / 2))

/-- sklearn `HaversineDistance` on rows `(lat, lon)` in radians. -/
def hav (F : Fns K) (a b : List K) : K :=
  match a, b with
  | [lat1, lon1], [lat2, lon2] => 2 * F.asin (F.sqrt (havArg F lat1 lon1 lat2 lon2))
  | _, _ => 0

def dist (F : Fns K) : Metric → List K → List K → K
  | .haversine => hav F
  | .l2 => l2 F
  | .l1 => l1 F
  | .linf => linf F

/-- unit vector of a (lat, lon) pair in radians. -/
def xyzOf (F : Fns K) (lat lon : K) : List K :=
  [F.cos lat * F.cos lon, F.cos lat * F.sin lon, F.sin lat]

/-- the row the tree stores for one element.  The element arrives as the grid reports it:
    `[lon, lat]` in degrees (spherical) or `[x, y, z]` (cartesian).
    Cartesian rows are the STORED coordinates as they are — nothing is normalised: on a grid whose
    Cartesian coordinates lie at radius `R` the tree metric is the chord between the stored points,
    i.e. distances (and `r`) are in units of `R` (`cartesian_radius_scale`), and the ranking is that
    of the unit sphere (`cartesian_radius_knn`).  Requesting a tree only READS coordinates: the
    cache state machine below has no coordinate component, so what the grid reports is the same
    before and after every request (checked on the implementation after every request).
    `np.vstack((deg2rad(lat), deg2rad(lon))).T` / `np.stack((x, y, z), axis=-1)`. -/
def treePoint (F : Fns K) (sys : Sys) (e : List K) : List K :=
  match sys with
  | .spherical => (e.reverse).map (d2r F)
  | .cartesian => e

/-- `_prepare_xy_for_query` / `_prepare_xyz_for_query` on one query row
    (`none` = AssertionError on the row width). -/
def prepQuery (F : Fns K) (sys : Sys) (m : Metric) (inRad : Bool) (q : List K) : Option (List K) :=
  match sys with
  | .spherical =>
    if q.length != 2 then none
    else
      let q1 := if m = .haversine then q.reverse else q
      some (if inRad then q1 else q1.map (d2r F))
  | .cartesian => if q.length != 3 then none else some q

/-- unit conversion of returned distances: `if not in_radians and spherical: d = rad2deg(d)`. -/
def reportDist (F : Fns K) (sys : Sys) (inRad : Bool) (d : K) : K :=
  if !inRad && sys = .spherical then r2d F d else d

/-- which variant of the code is modelled -/
inductive Variant | repaired | asIs deriving DecidableEq, Repr

/-- the radius handed to sklearn.  BallTree: `r = np.deg2rad(r)` for spherical trees (documented:
    "r: distance in degrees").  KDTree as it stands passes `r` through unchanged (so a spherical
    k-d tree reads `r` in radians while reporting degrees); the repaired KDTree converts like the
    BallTree. -/
def radiusIn (F : Fns K) (v : Variant) (kind : TreeKind) (sys : Sys) (r : K) : K :=
  match sys, kind, v with
  | .cartesian, _, _ => r
  | .spherical, .kd, .asIs => r
  | .spherical, _, _ => d2r F r

structure Cfg where
  kind : TreeKind
  sys : Sys
  metric : Metric
  inRad : Bool
  deriving DecidableEq, Repr

/-- distances (in the tree's own unit) from the prepared query to every element. -/
def distances (F : Fns K) (c : Cfg) (els : List (List K)) (q : List K) : Option (List K) :=
  (prepQuery F c.sys c.metric c.inRad q).map
    (fun pq => els.map (fun e => dist F c.metric pq (treePoint F c.sys e)))

/-- `query(coords, k)` for one row: `none` = the `k` guard or the row-width guard raises. -/
def modelQuery (F : Fns K) (le : K → K → Bool) (c : Cfg) (els : List (List K)) (q : List K)
    (k : Nat) : Option (List (K × Nat)) :=
  if k < 1 || k > els.length then none
  else (distances F c els q).map
    (fun D => (bruteKnn le D k).map (fun p => (reportDist F c.sys c.inRad p.1, p.2)))

/-- `query_radius(coords, r, return_distance=True)` for one row (`none` = guard raises). -/
def modelRadius (F : Fns K) (le : K → K → Bool) (v : Variant) (c : Cfg) (els : List (List K))
    (q : List K) (r : K) : Option (List (K × Nat)) :=
  if !(le 0 r) then none
  else (distances F c els q).map
    (fun D => (bruteRadius le D (radiusIn F v c.kind c.sys r)).map
      (fun p => (reportDist F c.sys c.inRad p.1, p.2)))

end Metrics

/-! ## 3. the tree cache of `Grid.get_ball_tree` / `Grid.get_kd_tree` -/

/-- what an sklearn tree was built from -/
structure Built where
  elem : Elem
  sys : Sys
  metric : Metric
  deriving DecidableEq, Repr

/-- the grid's element counts (`n_node`, `n_face`, `n_edge`) -/
structure Sizes where
  nNode : Nat
  nFace : Nat
  nEdge : Nat
  deriving DecidableEq, Repr

def Sizes.of (z : Sizes) : Elem → Nat
  | .nodes => z.nNode | .faces => z.nFace | .edges => z.nEdge

/-- a `BallTree` / `KDTree` wrapper object -/
structure TreeObj where
  coords : Elem            -- `_coordinates`
  count : Nat              -- `_n_elements` (ONE field per wrapper; the `k` guard reads it)
  sys : Sys                -- `coordinate_system`
  metric : Metric          -- `distance_metric`
  recon : Bool             -- `reconstruct` (sticky attribute of the wrapper)
  slotN : Option Built     -- `_tree_from_nodes`
  slotF : Option Built     -- `_tree_from_face_centers`
  slotE : Option Built     -- `_tree_from_edge_centers`
  deriving DecidableEq, Repr

structure Req where
  kind : TreeKind
  elem : Elem
  sys : Sys
  metric : Metric
  recon : Bool
  deriving DecidableEq, Repr

/-- `Grid._ball_tree`, `Grid._kd_tree` -/
structure Cache where
  ball : Option TreeObj
  kd : Option TreeObj
  deriving DecidableEq, Repr

def Cache.empty : Cache := ⟨none, none⟩

def TreeObj.slot (t : TreeObj) : Elem → Option Built
  | .nodes => t.slotN | .faces => t.slotF | .edges => t.slotE

def TreeObj.setSlot (t : TreeObj) (e : Elem) (b : Built) : TreeObj :=
  match e with
  | .nodes => { t with slotN := some b }
  | .faces => { t with slotF := some b }
  | .edges => { t with slotE := some b }

/-- `BallTree.__init__` / `KDTree.__init__` -/
def newTree (z : Sizes) (r : Req) : TreeObj :=
  ({ coords := r.elem, count := z.of r.elem, sys := r.sys, metric := r.metric, recon := r.recon,
     slotN := none, slotF := none, slotE := none } : TreeObj).setSlot r.elem ⟨r.elem, r.sys, r.metric⟩

/-- the `coordinates` setter: switch element kind, build the slot when empty (or when the
    wrapper was created with `reconstruct=True`) FROM THE WRAPPER'S OWN system / metric, and
    refresh `_n_elements` to the new kind's size — ALWAYS, also when the slot was already cached. -/
def switchTo (z : Sizes) (t : TreeObj) (e : Elem) : TreeObj :=
  let t1 := { t with coords := e, count := z.of e }
  if (t1.slot e).isNone || t1.recon then t1.setSlot e ⟨e, t1.sys, t1.metric⟩ else t1

/-- one `get_ball_tree` / `get_kd_tree` call on a cached wrapper. -/
def getFrom (z : Sizes) (v : Variant) (cur : Option TreeObj) (r : Req) : TreeObj :=
  match cur with
  | none => newTree z r
  | some t =>
    if r.recon then newTree z r
    else if v = .repaired && (r.sys != t.sys || r.metric != t.metric) then newTree z r
    else if r.elem != t.coords then switchTo z t r.elem else t

/-- a request: new cache state and the wrapper handed back. -/
def getTree (z : Sizes) (v : Variant) (c : Cache) (r : Req) : Cache × TreeObj :=
  match r.kind with
  | .ball => let t := getFrom z v c.ball r; ({ c with ball := some t }, t)
  | .kd => let t := getFrom z v c.kd r; ({ c with kd := some t }, t)

/-- run a history of requests; returns the final cache and every wrapper handed back. -/
def runReqs (z : Sizes) (v : Variant) : Cache → List Req → Cache × List TreeObj
  | c, [] => (c, [])
  | c, r :: rs =>
    let (c1, t) := getTree z v c r
    let (c2, ts) := runReqs z v c1 rs
    (c2, t :: ts)

/-- the sklearn tree a query on the wrapper goes to (`_current_tree`). -/
def TreeObj.current (t : TreeObj) : Option Built := t.slot t.coords

/-- **the wrapper reflects the request**: element kind, coordinate system and metric of the
    wrapper AND of the sklearn tree its queries go to are the requested ones, and the element
    count its `k` guard uses is the size of the REQUESTED kind. -/
def reflects (z : Sizes) (r : Req) (t : TreeObj) : Bool :=
  t.coords == r.elem && t.sys == r.sys && t.metric == r.metric
  && t.current == some ⟨r.elem, r.sys, r.metric⟩
  && t.count == z.of r.elem

/-- the `k` guard of `query` on a wrapper: `k < 1 or k > self._n_elements` raises. -/
def TreeObj.accepts (t : TreeObj) (k : Int) : Bool := decide (1 ≤ k) && decide (k ≤ (t.count : Int))

end UxVerif.Knn
