/-
  Line protocol shared by the harness and the driver: a line is `<command> <int> <int> …`.
  Lists travel as `len v…`, tables as `rows cols v…`, pairs lists as `len a b a b …`,
  floats as their IEEE-754 bit pattern (decimal `UInt64`), rationals as `num den`.
-/
import UxVerif.Model.Basic

namespace UxVerif.Proto

abbrev P := StateT (List Int) Option

def int : P Int := do
  match (← get) with
  | [] => failure
  | x :: xs => set xs; pure x

def nat : P Nat := do
  let x ← int
  if x < 0 then failure else pure x.toNat

def bool : P Bool := do return (← int) != 0

def many {α} (p : P α) : Nat → P (List α)
  | 0 => pure []
  | n + 1 => do let a ← p; let as ← many p n; pure (a :: as)

def list {α} (p : P α) : P (List α) := do many p (← nat)

def ints : P (List Int) := list int
def nats : P (List Nat) := list nat

def table : P Table := do
  let r ← nat; let c ← nat
  many (many int c) r

def pair : P (Int × Int) := do let a ← int; let b ← int; pure (a, b)
def pairs : P (List (Int × Int)) := list pair

def float : P Float := do
  let x ← nat
  pure (Float.ofBits x.toUInt64)

def floats : P (List Float) := list float

/-- a rational `num den` -/
def rat : P (Int × Nat) := do let a ← int; let b ← nat; pure (a, b)

def eof : P Unit := do
  match (← get) with
  | [] => pure ()
  | _ => failure

def run {α} (p : P α) (xs : List Int) : Option α :=
  match (do let a ← p; eof; pure a : P α).run xs with
  | some (a, _) => some a
  | none => none

/-! encoders -/
def encInts (l : List Int) : String :=
  " ".intercalate ((toString l.length) :: l.map toString)
def encNats (l : List Nat) : String := encInts (l.map Int.ofNat)
def encPairs (l : List (Int × Int)) : String :=
  " ".intercalate ((toString l.length) :: l.map (fun p => s!"{p.1} {p.2}"))
/-- a possibly ragged table: `rows` then each row as a list -/
def encRows (t : Table) : String :=
  " ".intercalate ((toString t.length) :: t.map encInts)
def encFloat (x : Float) : String := toString x.toBits.toNat
def encFloats (l : List Float) : String :=
  " ".intercalate ((toString l.length) :: l.map encFloat)
def encBool (b : Bool) : String := if b then "1" else "0"

/-- ragged rows parser matching `encRows` -/
def rows : P Table := list ints

end UxVerif.Proto
