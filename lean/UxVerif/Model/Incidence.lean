/-
  UxVerif.Model.Incidence — transcription of the incidence-table builders of
  `uxarray/grid/connectivity.py` (`_build_edge_face_connectivity`,
  `_build_node_faces_connectivity`, `_build_face_face_connectivity`) and
  `uxarray/grid/geometry.py::_construct_hole_edge_indices`, and the C03 specification.

  All three builders are loops that update one cell of a table per event; they are modelled
  by one generic `keyedFold` over the event list the loop runs through.
-/
import UxVerif.Model.Basic

namespace UxVerif.Incidence
open UxVerif

/-- a loop `for (k, v) in events: table[k] = upd(table[k], v)` -/
def keyedFold {C V : Type} (upd : C → V → C) (init : List C) (ev : List (Nat × V)) : List C :=
  ev.foldl (fun b kv => b.modify kv.1 (fun c => upd c kv.2)) init

/-- the values the loop feeds into cell `k`, in order -/
def feed {V : Type} (ev : List (Nat × V)) (k : Nat) : List V :=
  (ev.filter (fun kv => kv.1 == k)).map (·.2)

def padTo (w : Nat) (l : List Int) : List Int := l ++ List.replicate (w - l.length) FILL
def maxLen (L : List (List Int)) : Nat := L.foldl (fun m l => max m l.length) 0
/-- the non-padding entries of a row, wherever they are -/
def real (r : List Int) : List Int := r.filter (fun x => x != FILL)

/-! ### edge_face_connectivity -/

/-- `edges = cur_face_edges[:n_edges]` of face `f` -/
def faceEdgesOf (FE : Table) (N : List Nat) (f : Nat) : List Int := (rowAt FE f).take (N.getD f 0)

/-- the `(edge_idx, face_idx)` pairs in the order the double loop visits them -/
def efEvents (FE : Table) (N : List Nat) : List (Nat × Int) :=
  (List.range FE.length).flatMap (fun f => (faceEdgesOf FE N f).map (fun e => (e.toNat, Int.ofNat f)))

/-- `if edge_faces[e,0] == FILL: edge_faces[e,0] = f  else: edge_faces[e,1] = f` -/
def slotUpd (c : Int × Int) (f : Int) : Int × Int := if c.1 == FILL then (f, c.2) else (c.1, f)

def edgeFace (FE : Table) (N : List Nat) (nEdge : Nat) : List (Int × Int) :=
  keyedFold slotUpd (List.replicate nEdge (FILL, FILL)) (efEvents FE N)

/-! ### node_face_connectivity -/

def nfEvents (t : Table) : List (Nat × Int) :=
  (List.range t.length).flatMap (fun f => (real (rowAt t f)).map (fun v => (v.toNat, Int.ofNat f)))

def nodeFaceLists (n : Nat) (t : Table) : List (List Int) :=
  keyedFold (fun c f => c ++ [f]) (List.replicate n []) (nfEvents t)

def nodeFace (n : Nat) (t : Table) : Table :=
  let L := nodeFaceLists n t
  L.map (padTo (maxLen L))

/-! ### face_face_connectivity -/

def ffEventsOf (p : Int × Int) : List (Nat × Int) :=
  if p.1 != FILL && p.2 != FILL then [(p.1.toNat, p.2), (p.2.toNat, p.1)] else []

def ffEvents (EF : List (Int × Int)) : List (Nat × Int) := EF.flatMap ffEventsOf

def faceFaceLists (nFace : Nat) (EF : List (Int × Int)) : List (List Int) :=
  keyedFold (fun c f => c ++ [f]) (List.replicate nFace []) (ffEvents EF)

/-- rows padded to `n_max_face_edges` (`np.pad(arr, (0, w - len(arr)), FILL)`) -/
def faceFace (nFace w : Nat) (EF : List (Int × Int)) : Table :=
  (faceFaceLists nFace EF).map (padTo w)

/-! ### hole_edge_indices: `np.where(edge_face[:,1] == FILL)[0]` -/
def holeEdges (EF : List (Int × Int)) : List Nat :=
  (List.range EF.length).filter (fun e => (EF.getD e (0, 0)).2 == FILL)

structure Out where
  nodeFace : Table
  edgeFace : List (Int × Int)
  faceFace : Table
  holes : List Nat
deriving Repr, DecidableEq

def build (n w : Nat) (t FE : Table) (N : List Nat) (nEdge : Nat) : Out :=
  let EF := edgeFace FE N nEdge
  { nodeFace := nodeFace n t, edgeFace := EF, faceFace := faceFace t.length w EF,
    holes := holeEdges EF }

/-! ### Specification (C03)

  Stated against the face-node table `t` and the face-edge table `FE` (whose correctness is
  C02).  `edgesOfFace FE N f` are the real edges of face `f`.  -/

/-- how many (face, slot) places edge `e` occupies -/
def incidence (FE : Table) (N : List Nat) (e : Nat) : Nat := (feed (efEvents FE N) e).length

/-- preconditions: real face-edge entries are valid edge numbers; every edge lies in one or
    two faces (manifold); node indices valid. -/
def Pre (n : Nat) (t FE : Table) (N : List Nat) (nEdge : Nat) : Prop :=
  FE.length = t.length ∧
  (∀ f, f < FE.length → ∀ e ∈ faceEdgesOf FE N f, 0 ≤ e ∧ e < nEdge) ∧
  (∀ e, e < nEdge → 1 ≤ incidence FE N e ∧ incidence FE N e ≤ 2) ∧
  (∀ f, f < t.length → ∀ v ∈ real (rowAt t f), 0 ≤ v ∧ v < n)

instance (n t FE N nEdge) : Decidable (Pre n t FE N nEdge) := by unfold Pre; infer_instance

/-- face `f` is listed in `node_face[v]` iff `v` is a corner of `f`; entries are padding or
    face numbers -/
def NodeFaceOK (n : Nat) (t : Table) (NF : Table) : Prop :=
  NF.length = n ∧
  (∀ v, v < n → ∀ f, f < t.length →
    (Int.ofNat f ∈ rowAt NF v ↔ Int.ofNat v ∈ real (rowAt t f))) ∧
  (∀ r ∈ NF, ∀ x ∈ r, x = FILL ∨ (0 ≤ x ∧ x < t.length))

/-- face `f` is listed in `edge_face[e]` iff `e` is one of `f`'s edges; the first slot is
    always a face, the second is padding exactly for edges with a single incidence -/
def EdgeFaceOK (FE : Table) (N : List Nat) (nEdge : Nat) (EF : List (Int × Int)) : Prop :=
  EF.length = nEdge ∧
  ∀ e, e < nEdge →
    let p := EF.getD e (FILL, FILL)
    p.1 ≠ FILL ∧ (p.2 = FILL ↔ incidence FE N e = 1) ∧
    (∀ x ∈ [p.1, p.2], x = FILL ∨ (0 ≤ x ∧ x < FE.length)) ∧
    ∀ f, f < FE.length →
      ((Int.ofNat f = p.1 ∨ Int.ofNat f = p.2) ↔ Int.ofNat e ∈ faceEdgesOf FE N f)

/-- faces `f` and `g` share an edge -/
def Shares (FE : Table) (N : List Nat) (nEdge f g : Nat) : Prop :=
  ∃ e ∈ List.range nEdge,
    Int.ofNat e ∈ faceEdgesOf FE N f ∧ Int.ofNat e ∈ faceEdgesOf FE N g

instance (FE N nEdge f g) : Decidable (Shares FE N nEdge f g) := by unfold Shares; infer_instance

def EntriesOK (nFace : Nat) (T : Table) : Prop :=
  ∀ r ∈ T, ∀ x ∈ r, x = FILL ∨ (0 ≤ x ∧ x < nFace)

instance (nFace T) : Decidable (EntriesOK nFace T) := by unfold EntriesOK; infer_instance

/-- `g` is listed in `face_face[f]` iff `f ≠ g` share an edge (membership form) -/
def FaceFaceMemOK (FE : Table) (N : List Nat) (nEdge : Nat) (FF : Table) : Prop :=
  FF.length = FE.length ∧ EntriesOK FE.length FF ∧
  ∀ f, f < FE.length → ∀ g, g < FE.length → f ≠ g →
    (Int.ofNat g ∈ rowAt FF f ↔ Shares FE N nEdge f g)

/-- … once per shared edge (count form) -/
def FaceFaceCountOK (FE : Table) (N : List Nat) (nEdge : Nat) (FF : Table) : Prop :=
  ∀ f, f < FE.length → ∀ g, g < FE.length → f ≠ g →
    (rowAt FF f).count (Int.ofNat g) =
      ((List.range nEdge).filter (fun e =>
        decide (Int.ofNat e ∈ faceEdgesOf FE N f) && decide (Int.ofNat e ∈ faceEdgesOf FE N g))).length

/-- hole edges are exactly the edges with a single adjacent face -/
def HolesOK (FE : Table) (N : List Nat) (nEdge : Nat) (H : List Nat) : Prop :=
  H.Nodup ∧ (∀ e ∈ H, e < nEdge) ∧ ∀ e, e < nEdge → (e ∈ H ↔ incidence FE N e = 1)

def Spec (n : Nat) (t FE : Table) (N : List Nat) (nEdge : Nat) (o : Out) : Prop :=
  NodeFaceOK n t o.nodeFace ∧ EdgeFaceOK FE N nEdge o.edgeFace ∧
  FaceFaceMemOK FE N nEdge o.faceFace ∧ FaceFaceCountOK FE N nEdge o.faceFace ∧
  HolesOK FE N nEdge o.holes

instance (n t NF) : Decidable (NodeFaceOK n t NF) := by unfold NodeFaceOK; infer_instance
instance (FE N nEdge EF) : Decidable (EdgeFaceOK FE N nEdge EF) := by
  unfold EdgeFaceOK; infer_instance
instance (FE N nEdge FF) : Decidable (FaceFaceMemOK FE N nEdge FF) := by
  unfold FaceFaceMemOK; infer_instance
instance (FE N nEdge FF) : Decidable (FaceFaceCountOK FE N nEdge FF) := by
  unfold FaceFaceCountOK; infer_instance
instance (FE N nEdge H) : Decidable (HolesOK FE N nEdge H) := by unfold HolesOK; infer_instance
instance (n t FE N nEdge o) : Decidable (Spec n t FE N nEdge o) := by unfold Spec; infer_instance

def failing (n : Nat) (t FE : Table) (N : List Nat) (nEdge : Nat) (o : Out) : List String :=
  (if NodeFaceOK n t o.nodeFace then [] else ["node_face"]) ++
  (if EdgeFaceOK FE N nEdge o.edgeFace then [] else ["edge_face"]) ++
  (if FaceFaceMemOK FE N nEdge o.faceFace then [] else ["face_face_mem"]) ++
  (if FaceFaceCountOK FE N nEdge o.faceFace then [] else ["face_face_count"]) ++
  (if HolesOK FE N nEdge o.holes then [] else ["holes"])

end UxVerif.Incidence
