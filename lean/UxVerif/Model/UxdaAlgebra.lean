/-
  UxVerif.Model.UxdaAlgebra — the algebra of `UxDataArray` operations (C10).

  An array is abstracted to what the property talks about: is it a `UxDataArray`, which `Grid`
  object sits in its `_uxgrid` slot, and its named dimensions with their lengths.  Grid objects
  live in a heap (a grid's id is its index; allocation appends); a heap record carries the three
  element counts and the identity of the backing store (`Grid._ds`), which is what "independent"
  means for a deep copy.

  Every public operation builds its result through one of a handful of CONSTRUCTOR PATHS, and what
  happens to the grid slot depends only on the path:

    replace    xarray's `_replace` → `type(self)(variable, coords, …, fastpath=True)`; the override
               `UxDataArray._replace` (core/dataarray.py:117-127) re-attaches `self.uxgrid`
    copy       `UxDataArray._copy` (core/dataarray.py:101-115): `super()._copy` (which itself goes
               through `_replace`) and then `uxgrid := self.uxgrid` or `self.uxgrid.copy()`
    plainCtor  xarray builds `DataArray(…)` itself (apply_ufunc's `apply_dataarray_vfunc`,
               `DataArrayRolling`): the subclass and its slot are lost
    classCtor  `type(self)(…)` / `array.__class__(…)` / `cls._construct_direct(…)` outside
               `_replace` (core/dataarray.py:96-99): a `UxDataArray` whose slot is `None`

  Which path a public xarray method takes is a property of the installed xarray, not of uxarray:
  it is the parameter `Table` of the model.  The harness observes the table on every run (by
  wrapping the override points in-process) and hands it to the driver; `asIs` is the table seen
  with xarray 2026.7 and is used for the as-is counterexamples in `Props/C10.lean`.

  uxarray's own operations construct `UxDataArray(data, dims=…, uxgrid=…)` explicitly; their
  effect on the dimensions and on the slot is transcribed from the anchored code.

  Import-free (core Lean only): linked into `drv_c10`.
-/
namespace UxVerif.UxdaAlgebra

/-! ## dimensions, counts, heap -/

inductive Dim where
  | node | edge | face
  | other (k : Nat)
deriving DecidableEq, Repr

def Dim.isGrid : Dim → Bool
  | .other _ => false
  | _ => true

structure Counts where
  node : Nat
  edge : Nat
  face : Nat
deriving DecidableEq, Repr

/-- element count of a grid for a grid dimension (`other` is never asked) -/
def Counts.get (c : Counts) : Dim → Nat
  | .node => c.node
  | .edge => c.edge
  | .face => c.face
  | .other _ => 0

/-- counts of the dual of a closed mesh (`get_dual`: nodes ↔ faces, edges kept) -/
def Counts.dual (c : Counts) : Counts := ⟨c.face, c.edge, c.node⟩

structure GridRec where
  counts : Counts
  store : Nat
deriving DecidableEq, Repr

abbrev Heap := List GridRec
abbrev Dims := List (Dim × Nat)

structure Arr where
  isUx : Bool
  grid : Option Nat
  dims : Dims
deriving DecidableEq, Repr

structure State where
  heap : Heap
  arr : Arr
deriving DecidableEq, Repr

/-- a store id no grid of the heap uses -/
def freshStore (h : Heap) : Nat := (h.map (·.store)).foldl max 0 + 1

/-! ## dimension bookkeeping (what plain xarray does to the shape) -/

def hasDim (ds : Dims) (d : Dim) : Bool := ds.any (fun p => p.1 == d)
def setLen (ds : Dims) (d : Dim) (n : Nat) : Dims := ds.map (fun p => if p.1 = d then (d, n) else p)
def dropDim (ds : Dims) (d : Dim) : Dims := ds.filter (fun p => !(p.1 == d))
def dropDims (ds : Dims) (l : List Dim) : Dims := ds.filter (fun p => !(l.contains p.1))
def renameD (ds : Dims) (d d' : Dim) : Dims := ds.map (fun p => if p.1 = d then (d', p.2) else p)
def setLast (ds : Dims) (d : Dim) (n : Nat) : Dims := ds.dropLast ++ [(d, n)]

def Dim.swap : Dim → Dim
  | .node => .face
  | .face => .node
  | d => d

/-- every grid dimension has the length the counts say -/
def dimsOKB (c : Counts) (ds : Dims) : Bool := ds.all (fun p => !p.1.isGrid || p.2 == c.get p.1)

/-- the grid dimension of an array that has exactly one (face-, edge- or node-centred data) -/
def centred (ds : Dims) : Option Dim :=
  match ds.filter (fun p => p.1.isGrid) with
  | [p] => some p.1
  | _ => none

/-! ## constructor paths -/

inductive Path where
  | replace | copy | plainCtor | classCtor
deriving DecidableEq, Repr

/-- the classes of xarray operation the property lists -/
inductive XKind where
  | arith | ufunc | whereOp | clip | fillna | astype
  | indexOther | indexGrid
  | reduce | cumulative | rolling
  | transpose | rename | assignCoords | concat
deriving DecidableEq, Repr

abbrev Table := XKind → Path

def Path.good : Path → Bool
  | .replace | .copy => true
  | _ => false

/-- the table observed with xarray 2026.7.0 on the snapshot -/
def asIs : Table
  | .ufunc | .whereOp | .clip | .fillna | .astype | .rolling => .plainCtor
  | .assignCoords => .copy
  | _ => .replace

/-- the result of building an array with dimensions `ds` from `a` through path `p` -/
def build (p : Path) (a : Arr) (ds : Dims) : Arr :=
  if a.isUx then
    match p with
    | .replace | .copy => ⟨true, a.grid, ds⟩
    | .classCtor => ⟨true, none, ds⟩
    | .plainCtor => ⟨false, none, ds⟩
  else ⟨false, none, ds⟩

/-! ## operations -/

inductive Sel where
  | drop            -- integer / scalar label: the dimension disappears
  | len (n : Nat)   -- slice / list / array: the dimension keeps its name with `n` entries
deriving DecidableEq, Repr

inductive Op where
  /-- arithmetic, NumPy functions, where / clip / fillna / astype, assign_coords (`k` says which) -/
  | elem (k : XKind)
  /-- cumulative / rolling operations along the non-grid dimension `other d` -/
  | along (k : XKind) (d : Nat)
  /-- xarray indexing (`[]`, `isel(indexers=…)`, `isel(**kw)` on non-grid dims, `sel`, `head` …) -/
  | index (d : Dim) (s : Sel)
  | reduce (l : List Dim)
  | transpose (nd : Dims)
  | renameDim (k k' : Nat)
  | renameName
  | concatAlong (k n : Nat)
  | concatNew (k n : Nat)
  /-- `expand_dims(other k)`: a new dimension of length 1, first (`axis=0`) or last (`axis=-1`) -/
  | expandDims (k : Nat) (last : Bool)
  /-- `copy(deep)`; `fresh` = the new grid got its own backing store (observed) -/
  | copy (deep fresh : Bool)
  /-- uxarray's `isel(n_node=… | n_edge=… | n_face=…)` and the `subset.*` accessors: `Grid.isel` built a
      grid with counts `c`.  Indexing is BY NAME: the array's one grid dimension, WHEREVER it sits, gets
      the sub-grid's count; order and all other dimensions are untouched (so it commutes with
      transposition). -/
  | gridIsel (c : Counts)
  | integrate
  | gradient
  | difference
  | topoAgg (dest : Dim)
  | remap (g : Nat) (dest : Dim)
  /-- `get_dual`; `closed` = every node of the source has at least three faces, as on a closed mesh
      without hanging nodes (then the dual has one face per node and the counts are the swapped
      ones); otherwise `construct_dual` skips nodes and `c` are the counts of the dual that was built.
      This is the code AS IT STOOD for every centring, and still is for edge-centred data. -/
  | getDual (closed : Bool) (c : Counts)
  /-- `get_dual` REPAIRED (fixes/C10-get-dual-drops-nodes-without-dual-face.patch) for face- and
      node-centred data: node data are restricted to the nodes that get a face in the dual (≥ 3 faces, the
      mask `construct_dual` uses), so the new `n_face` dimension has the dual's face count; face data
      move to the dual's nodes, which ARE the source's faces.  `c.edge`, `c.face`: observed. -/
  | getDualR (c : Counts)
deriving DecidableEq, Repr

/-- The public ways of copying a `DataArray`.  `copy(deep=True, data=None)` has `deep=True` as its
    default, `copy.copy` is `_copy(deep=False)`, `copy.deepcopy` is `_copy(deep=True, memo=…)`.  Supplying
    `data=` replaces the VALUES only: whether the copy is deep (and hence must get an equal, independent
    grid) is decided by `deep` alone. -/
inductive CopyApi where
  | default          -- copy()
  | deepTrue         -- copy(deep=True)
  | deepFalse        -- copy(deep=False)
  | data             -- copy(data=x)
  | deepTrueData     -- copy(deep=True, data=x)
  | deepFalseData    -- copy(deep=False, data=x)
  | pyCopy           -- copy.copy(uxda)
  | pyDeepcopy       -- copy.deepcopy(uxda)
deriving DecidableEq, Repr

/-- everything except `deep=False` / `copy.copy` is a deep copy -/
def CopyApi.deep : CopyApi → Bool
  | .deepFalse | .deepFalseData | .pyCopy => false
  | _ => true

/-- the operation a copy call is; `fresh` = the new grid got its own backing store (observed) -/
def Op.ofCopy (api : CopyApi) (fresh : Bool) : Op := .copy api.deep fresh

/-! ## the FORM of an indexer of a grid dimension, and its normalisation to positions

    Whatever form the user writes — a Python / NumPy integer list (negative entries count from the end,
    duplicates allowed), a slice with any step, a boolean mask (NumPy array, list of bools, a boolean
    `xarray.DataArray` such as `uxda > c`) — a selection along a dimension of length `n` IS a list of
    positions `< n`.  `UxDataArray.isel` computes it as `np.arange(n)[indexer]`; the harness compares
    `normIdx` with NumPy on every generated indexer.  A mask is NOT its cast to integers. -/

inductive Idx where
  | ints (l : List Int)
  | slice (start stop : Option Int) (step : Int)
  | mask (m : List Bool)
deriving DecidableEq, Repr

/-- positions of the `true` entries of a mask whose first entry sits at position `k` -/
def maskPos : Nat → List Bool → List Nat
  | _, [] => []
  | k, b :: m => if b then k :: maskPos (k + 1) m else maskPos (k + 1) m

def pyClamp (x lo hi : Int) : Int := if x < lo then lo else if x > hi then hi else x

/-- Python's `slice(start, stop, step).indices(n)` expanded -/
def sliceIdx (n : Nat) (start stop : Option Int) (step : Int) : Option (List Nat) :=
  let N : Int := n
  let wrap (v : Int) : Int := if v < 0 then v + N else v
  if step = 0 then none
  else if step > 0 then
    let s := match start with | none => 0 | some v => pyClamp (wrap v) 0 N
    let e := match stop with | none => N | some v => pyClamp (wrap v) 0 N
    some ((List.range n).filter (fun (i : Nat) => decide (s ≤ (i : Int)) && decide ((i : Int) < e) &&
                                          decide (((i : Int) - s) % step = 0)))
  else
    let s := match start with | none => N - 1 | some v => pyClamp (wrap v) (-1) (N - 1)
    let e := match stop with | none => -1 | some v => pyClamp (wrap v) (-1) (N - 1)
    some (((List.range n).filter (fun (i : Nat) => decide ((i : Int) ≤ s) && decide ((i : Int) > e) &&
                                           decide ((s - (i : Int)) % (-step) = 0))).reverse)

def intPos (n : Nat) (i : Int) : Option Nat :=
  if 0 ≤ i ∧ i < n then some i.toNat
  else if -(n : Int) ≤ i ∧ i < 0 then some (i + n).toNat
  else none                                  -- IndexError

/-- the positions an indexer selects along a dimension of length `n` (`none`: NumPy raises) -/
def normIdx (n : Nat) : Idx → Option (List Nat)
  | .ints l => l.mapM (intPos n)
  | .slice a b st => sliceIdx n a b st
  | .mask m => if m.length = n then some (maskPos 0 m) else none

/-- what a mask becomes when it is CAST to integers instead of normalised (the slip of the seeded change
    C10f, and what `Grid.isel` did with a mask before fixes/C10-grid-isel-mask-and-slice.patch) -/
def maskAsInts (m : List Bool) : Idx := .ints (m.map (fun b => if b then 1 else 0))

/-! ## the public uxarray calls that return a `UxDataArray`, with every value of their kind-selecting
    keyword arguments.  This is the table the harness's mechanical enumeration of constructor sites
    (ast walk over core/, remap/, subset/, cross_sections/) is compared with on every run. -/

inductive Elem where
  | node | edge | face
deriving DecidableEq, Repr

def Elem.dim : Elem → Dim
  | .node => .node | .edge => .edge | .face => .face

/-- the ten `topological_*` aggregations (all built by `_uxda_grid_aggregate`) -/
inductive Agg where
  | mean | max | min | prod | sum | std | var | median | all | any
deriving DecidableEq, Repr

inductive UxCall where
  /-- `remap.nearest_neighbor(dest, remap_to, coord_type)`; `to`: "nodes" / "edge centers" / "face centers";
      `coord_type` (spherical / cartesian) selects the tree only -/
  | remapNN (g : Nat) (to : Elem)
  /-- `remap.inverse_distance_weighted(dest, remap_to, coord_type, power, k)` -/
  | remapIDW (g : Nat) (to : Elem)
  /-- `topological_<agg>(destination)` -/
  | topo (a : Agg) (dest : Elem)
  | gradient
  | difference
  | integrate
  /-- `isel(n_node=… | n_edge=… | n_face=…)`; `c`: counts of the grid `Grid.isel` built -/
  | isel (by_ : Elem) (c : Counts)
  | subsetNN (element : Elem) (c : Counts)
  | subsetCircle (element : Elem) (c : Counts)
  | subsetBox (element : Elem) (c : Counts)
  /-- `cross_section.constant_latitude(lat)` (= `isel(n_face=faces)`) -/
  | crossSectionLat (c : Counts)
  | getDual (closed : Bool) (c : Counts)
  | getDualR (c : Counts)
deriving DecidableEq, Repr

/-- the model operation a public call is: the result's element dimension is NAMED after the kind the
    keyword selects and has the attached grid's count for that kind -/
def UxCall.op : UxCall → Op
  | .remapNN g to => .remap g to.dim
  | .remapIDW g to => .remap g to.dim
  | .topo _ dest => .topoAgg dest.dim
  | .gradient => .gradient
  | .difference => .difference
  | .integrate => .integrate
  | .isel _ c => .gridIsel c
  | .subsetNN _ c => .gridIsel c
  | .subsetCircle _ c => .gridIsel c
  | .subsetBox _ c => .gridIsel c
  | .crossSectionLat c => .gridIsel c
  | .getDual closed c => .getDual closed c
  | .getDualR c => .getDualR c

/-- the class of an xarray operation (none for copies and for uxarray's own operations) -/
def Op.kind : Op → Option XKind
  | .elem k => some k
  | .along k _ => some k
  | .index d _ => some (if d.isGrid then .indexGrid else .indexOther)
  | .reduce _ => some .reduce
  | .transpose _ => some .transpose
  | .renameDim _ _ => some .rename
  | .renameName => some .rename
  | .concatAlong _ _ => some .concat
  | .concatNew _ _ => some .concat
  | .expandDims _ _ => some .concat
  | _ => none

/-- is it one of the xarray operations (for which "what plain xarray computes" is defined) -/
def Op.isX : Op → Bool
  | .copy _ _ => true
  | op => op.kind.isSome

/-- the shape plain xarray computes (`none`: xarray raises) -/
def xdims (op : Op) (ds : Dims) : Option Dims :=
  match op with
  | .elem _ => some ds
  | .along _ d => if hasDim ds (.other d) then some ds else none
  | .index d .drop => if hasDim ds d then some (dropDim ds d) else none
  | .index d (.len n) => if hasDim ds d then some (setLen ds d n) else none
  | .reduce l => if l.all (hasDim ds) then some (dropDims ds l) else none
  | .transpose nd => if nd.isPerm ds then some nd else none
  | .renameDim k k' =>
      if hasDim ds (.other k) && !hasDim ds (.other k') then some (renameD ds (.other k) (.other k'))
      else none
  | .renameName => some ds
  | .concatAlong k n => if hasDim ds (.other k) then some (setLen ds (.other k) n) else none
  | .concatNew k n => if hasDim ds (.other k) then none else some ((.other k, n) :: ds)
  | .expandDims k last =>
      if hasDim ds (.other k) then none
      else some (if last then ds ++ [(.other k, 1)] else (.other k, 1) :: ds)
  | .copy _ _ => some ds
  | _ => none

/-- grid id and record of a `UxDataArray` whose slot is filled -/
def cur (s : State) : Option (Nat × GridRec) :=
  if s.arr.isUx then
    match s.arr.grid with
    | some g => (s.heap[g]?).map (fun r => (g, r))
    | none => none
  else none

/-- last dimension, when it is the grid dimension `d` with the length the grid says -/
def lastIs (s : State) (r : GridRec) (d : Dim) : Bool :=
  s.arr.dims.getLast? == some (d, r.counts.get d)

/-- an xarray operation: the shape is xarray's, the class and the slot are the path's -/
def stepX (T : Table) (s : State) (op : Op) : Option State :=
  match op.kind, xdims op s.arr.dims with
  | some k, some ds => some { s with arr := build (T k) s.arr ds }
  | _, _ => none

/-- One operation.  `none`: the operation raises / is outside what the harness generates. -/
def step (T : Table) (s : State) (op : Op) : Option State :=
  match op with
  | .copy false _ => some { s with arr := build .copy s.arr s.arr.dims }
  | .copy true fresh =>
      if s.arr.isUx then
        match cur s with
        | some (_, r) =>
            -- `copied.uxgrid = self.uxgrid.copy()`: a NEW Grid object …
            let st := if fresh then freshStore s.heap else r.store
            some { heap := s.heap ++ [⟨r.counts, st⟩], arr := ⟨true, some s.heap.length, s.arr.dims⟩ }
        | none => none            -- `None.copy()` raises
      else some s
  | .gridIsel c =>
      match cur s, centred s.arr.dims with
      | some _, some d =>
          -- `_slice_from_grid`: the data are indexed with the sub-grid's own index list
          some { heap := s.heap ++ [⟨c, freshStore s.heap⟩],
                 arr := ⟨true, some s.heap.length, setLen s.arr.dims d (c.get d)⟩ }
      | _, _ => none
  | .integrate =>
      match cur s with
      | some (g, r) =>
          if lastIs s r .face then some { s with arr := ⟨true, some g, s.arr.dims.dropLast⟩ } else none
      | none => none
  | .gradient =>
      match cur s with
      | some (g, r) =>
          if lastIs s r .face then
            some { s with arr := ⟨true, some g, setLast s.arr.dims .edge r.counts.edge⟩ }
          else none
      | none => none
  | .difference =>
      match cur s with
      | some (g, r) =>
          if lastIs s r .face || lastIs s r .node then
            some { s with arr := ⟨true, some g, setLast s.arr.dims .edge r.counts.edge⟩ }
          else none
      | none => none
  | .topoAgg dest =>
      match cur s with
      | some (g, r) =>
          if lastIs s r .node && (dest == .face || dest == .edge) then
            some { s with arr := ⟨true, some g, setLast s.arr.dims dest (r.counts.get dest)⟩ }
          else none
      | none => none
  | .remap g2 dest =>
      match cur s, s.heap[g2]?, centred s.arr.dims with
      | some (_, r), some r2, some d =>
          -- the element dimension is the last one and the only grid dimension
          if dest.isGrid && lastIs s r d then
            some { s with arr := ⟨true, some g2, setLast s.arr.dims dest (r2.counts.get dest)⟩ }
          else none
      | _, _, _ => none
  | .getDual closed c =>
      match cur s with
      | some (_, r) =>
          let c' := if closed then r.counts.dual else c
          some { heap := s.heap ++ [⟨c', freshStore s.heap⟩],
                 arr := ⟨true, some s.heap.length, s.arr.dims.map (fun p => (p.1.swap, p.2))⟩ }
      | none => none
  | .getDualR c =>
      match cur s, centred s.arr.dims with
      | some (_, r), some d =>
          if d == .edge then none     -- edge data have no counterpart on the dual: the as-is operation applies
          else
            -- the dual's nodes are the source's faces; its edge and face counts are what was built
            let c' : Counts := ⟨r.counts.face, c.edge, c.face⟩
            some { heap := s.heap ++ [⟨c', freshStore s.heap⟩],
                   arr := ⟨true, some s.heap.length,
                           s.arr.dims.map (fun p => if p.1 = .node then (.face, c.face) else (p.1.swap, p.2))⟩ }
      | _, _ => none
  | op => stepX T s op

/-- a program -/
def run (T : Table) : State → List Op → Option State
  | s, [] => some s
  | s, op :: p =>
    match step T s op with
    | some s' => run T s' p
    | none => none

/-! ## scope of the invariant theorems (used by `Props/C10.lean` and reported by the driver) -/

/-- operations of the property's quantifier that the invariant can be expected to survive:
    positional indexing that SHORTENS a grid dimension through xarray's own path keeps the un-sliced
    grid (xarray knows nothing about grids), and the AS-IS dual of a mesh with nodes of fewer than
    three faces (every partial mesh) does not have one face per node — see
    `asis_positional_slice_stale_grid`, `asis_get_dual_partial`.  Both are repaired where a repair
    exists: positional selection of FACES (`uxda[..., idx]`, `isel(indexers=…)`) is routed through
    `Grid.isel` and is then the operation `gridIsel` (fixes/C10-positional-face-indexing-slices-grid.patch);
    `get_dual` of node / face data is `getDualR`.  What remains out of scope: positional indexing of
    n_node / n_edge (an exact sub-grid does not exist: selection of nodes / edges is inclusive),
    `sel` / `head` / `tail` / `thin` (they run inside xarray on a temporary Dataset), and the dual of
    edge-centred data on such meshes. -/
def Scoped : Op → Bool
  | .index d (.len _) => !d.isGrid
  | .getDual closed _ => closed
  | _ => true

/-- classes of operation that are safe under the table observed with the installed xarray -/
def safeAsIs (op : Op) : Bool :=
  match op.kind with
  | some k => (asIs k).good
  | none => true

/-! ## the specification of one step (decidable; evaluated on the IMPLEMENTATION's result) -/

/-- sentence 2 of the property, plus "a grid is attached": the slot holds a live grid and every
    grid dimension of the array has that grid's element count -/
def attachedB (s : State) : Bool :=
  s.arr.isUx &&
  match s.arr.grid with
  | some g =>
      match s.heap[g]? with
      | some r => dimsOKB r.counts s.arr.dims
      | none => false
  | none => false

/-- operations that must keep THE SAME grid object -/
def Op.sameGrid : Op → Bool
  | .copy deep _ => !deep
  | .gridIsel _ | .remap _ _ | .getDual _ _ | .getDualR _ => false
  | _ => true

/-- deep copy: a new grid object, equal counts, a store no earlier grid uses, old grids untouched -/
def deepCopyB (s s' : State) : Bool :=
  match cur s, s'.arr.grid with
  | some (_, r), some g' =>
      g' == s.heap.length &&
      match s'.heap[g']? with
      | some r' => r'.counts == r.counts && !((s.heap.map (·.store)).contains r'.store) &&
                   s'.heap == s.heap ++ [r']
      | none => false
  | _, _ => false

/-- grid-`isel` is by name: same dimension names in the same order, only the array's grid dimension
    changes its length, to the sub-grid's count -/
def gridIselShapeB (s : State) (c : Counts) (s' : State) : Bool :=
  match centred s.arr.dims with
  | some d => s'.arr.dims == setLen s.arr.dims d (c.get d)
  | none => false

/-- names of the clauses that fail for the step `s --op--> s'`; `xd` = dims of the same operation
    on a plain `xarray.DataArray` (only read for xarray operations). -/
def failing (s : State) (op : Op) (s' : State) (xd : Dims) : List String :=
  (if s'.arr.isUx then [] else ["is_uxdataarray"]) ++
  (if s'.arr.grid.isSome then [] else ["grid_attached"]) ++
  (if !s'.arr.isUx || s'.arr.grid.isNone || attachedB s' then [] else ["dims_match_grid"]) ++
  (if op.sameGrid then
      (if s'.arr.grid.isNone || (s'.arr.grid == s.arr.grid && s'.heap == s.heap) then [] else ["same_grid"])
   else []) ++
  (match op with
   | .copy true _ => if s'.arr.grid.isNone || deepCopyB s s' then [] else ["deep_copy_equal_independent"]
   | .remap g2 _ => if s'.arr.grid.isNone || s'.arr.grid == some g2 then [] else ["remap_destination_grid"]
   | .gridIsel c =>
       if s'.arr.grid.isNone || gridIselShapeB s c s' then [] else ["grid_isel_by_name"]
   | _ => []) ++
  (if op.isX then (if s'.arr.dims == xd then [] else ["shape_as_xarray"]) else [])

def specB (s : State) (op : Op) (s' : State) (xd : Dims) : Bool := (failing s op s' xd).isEmpty

end UxVerif.UxdaAlgebra
