/-
  C08 — reading from a grid never changes what any grid reports.

  Executable model of the lazily populated state of `uxarray.Grid` (core Lean only).

  * A WORLD is a list of grid states plus the module-level containers of `uxarray.conventions`
    (`Globals`, F4).  A GRID STATE is
      (F1) the lazy variable store `Grid._ds` : `Var → Option Entry`.  An entry carries the value
           as a TERM, the side table of its own derivation (`inverse_indices` on
           `edge_node_connectivity`), whether it is known to lie in the longitude range (what
           `_set_desired_longitude_range` would still rewrite in place) and whether `Grid.chunk()`
           turned it into a dask array;
      (F2/F3) keyed caches (`_ball_tree`, `_kd_tree`, the three plotting caches) with the comparison
           actually performed on reuse and the key actually recorded on store;
      (F5) `_antimeridian_face_indices` / `_face_jacobian` are store cells outside `_ds`.
  * The population code is a TABLE of units (`_populate_*`): which getters a unit calls first
    (`reads`), which variables it stores (`writes`), under which presence tests (`guard`), from which
    stored values (`args`), whether it overwrites (`force`), whether it writes into the module
    template (`leak`).  `getV` is the `if name not in self._ds: populate` pattern of every property.
  * Results are TERMS: "equal to what a freshly opened copy returns" is term equality with the pure
    recursion `fresh` (no store, no history).

  `uxTable fl sig` is the transcription of /repo (`fl` switches the defects of the snapshot back
  on: the as-is counterexamples of Props/C08.lean); the theorems of Props/C08.lean hold for EVERY
  table that passes the decidable check `wfB`.
-/
namespace UxVerif.Caches

/-! ## variables, terms, entries -/

inductive Var
  | nodeLL | nodeXYZ | edgeLL | edgeXYZ | faceLL | faceXYZ
  | faceNode | edgeNode | faceEdge | edgeFace | faceFace | nodeFace
  | nPer | areas | bounds | enDist | efDist | holes | enZ
  | amIdx | jac
  deriving DecidableEq, Repr, Inhabited

def Var.all : List Var :=
  [.nodeLL, .nodeXYZ, .edgeLL, .edgeXYZ, .faceLL, .faceXYZ, .faceNode, .edgeNode, .faceEdge,
   .edgeFace, .faceFace, .nodeFace, .nPer, .areas, .bounds, .enDist, .efDist, .holes, .enZ,
   .amIdx, .jac]

def Var.code (v : Var) : Nat := Var.all.idxOf v
def Var.decode (n : Nat) : Var := Var.all.getD n .nodeLL

/-- stored in `Grid._ds` (and therefore exported / chunked); the last two are attributes -/
def Var.inDs : Var → Bool
  | .amIdx | .jac => false
  | _ => true

/-- `Grid.chunk()` converts `coordinates ∪ connectivity ∪ descriptors` (not `bounds`,
    `hole_edge_indices`, `edge_node_z`, nor the cells outside `_ds`) -/
def Var.chunkable : Var → Bool
  | .bounds | .holes | .enZ | .amIdx | .jac => false
  | _ => true

inductive Term
  | src (s : Nat) (v : Var)   -- the value source `s` supplies for `v`
  | fn (f : Nat)              -- a function symbol
  | ap (t a : Term)           -- application (curried)
  | bad                       -- missing input / fuel exhausted
  deriving DecidableEq, Repr, Inhabited

/-- `f(a₁,…,aₙ)` -/
def mkApp (f : Nat) (args : List Term) : Term := args.foldl Term.ap (Term.fn f)

structure Entry where
  val : Term
  side : Option Term := none
  ranged : Bool := true
  chunked : Bool := false
  deriving DecidableEq, Repr

abbrev Store := Var → Option Entry

def Store.set (st : Store) (v : Var) (e : Entry) : Store := fun x => if x = v then some e else st x

def Store.empty : Store := fun _ => none

def Store.erase (st : Store) (vs : List Var) : Store := fun x => if vs.contains x then none else st x

/-- module-level containers: `EDGE_NODE_CONNECTIVITY_ATTRS["inverse_indices"]` -/
structure Globals where
  edgeSide : Option Term := none
  deriving DecidableEq, Repr

/-! ## the population table -/

inductive Cond
  | absent (v : Var) | present (v : Var)   -- `"x" (not) in grid._ds`
  | hasSide (v : Var) | noSide (v : Var)   -- `"inverse_indices" (not) in attrs`
  deriving DecidableEq, Repr

inductive Arg
  | val (v : Var)
  | side (v : Var)
  deriving DecidableEq, Repr

def Arg.var : Arg → Var
  | .val v => v
  | .side v => v

structure Write where
  var : Var
  guard : List Cond := []
  fn : Nat
  args : List Arg
  force : Bool := false      -- store although present (in-place replacement)
  withSide : Bool := false   -- the stored variable carries its side table
  leak : Bool := false       -- … and writes it into the module-level template as well
  ranged : Bool := true      -- longitudes come out in [-180, 180]
  drops : List Var := []     -- variables removed from the store first (`_ds = _ds.drop_dims(dim)`)
  deriving DecidableEq, Repr

structure Unit where
  reads : List Var
  writes : List Write
  deriving DecidableEq, Repr

structure Table where
  unitOf : Var → Unit
  rk : Var → Nat                -- derivation depth (only used to bound the recursion)
  sided : Var → Bool            -- derived entries of this variable carry a side table
  wrapPop : Var → Bool          -- the getter wraps all longitudes after populating
  wrapGet : Var → Bool          -- the getter wraps all longitudes on every call

/-! ## semantics of the getters -/

def evalCond (st : Store) : Cond → Bool
  | .absent v => (st v).isNone
  | .present v => (st v).isSome
  | .hasSide v => match st v with
      | some e => e.side.isSome
      | none => false
  | .noSide v => match st v with
      | some e => e.side.isNone
      | none => false

def argVal (st : Store) : Arg → Term
  | .val v => match st v with
      | some e => e.val
      | none => .bad
  | .side v => match st v with
      | some e => (match e.side with | some t => t | none => .bad)
      | none => .bad

abbrev St := Store × Globals

/-- one `grid._ds[name] = …` of a populate function; `st0` is the store the presence tests of the
    function looked at -/
def doWrite (st0 : Store) (σ : St) (w : Write) : St :=
  if w.guard.all (evalCond st0) && (w.force || (σ.1 w.var).isNone) then
    let t := mkApp w.fn (w.args.map (argVal σ.1))
    let e : Entry := { val := t, side := if w.withSide then some t else none,
                       ranged := w.ranged, chunked := false }
    ((σ.1.erase w.drops).set w.var e, if w.leak then { σ.2 with edgeSide := some t } else σ.2)
  else σ

def lonVars : List Var := [.nodeLL, .edgeLL, .faceLL]

/-- `_set_desired_longitude_range(self._ds)` -/
def wrapAll (st : Store) : Store := fun v =>
  if lonVars.contains v then (st v).map (fun e => { e with ranged := true }) else st v

def rawTag : Nat := 0

/-- what the caller sees of an entry (a longitude not yet wrapped is a different array) -/
def Entry.obs (e : Entry) : Term := if e.ranged then e.val else .ap (.fn rawTag) e.val

def obsOf : Option Entry → Term
  | some e => e.obs
  | none => .bad

/-- a property getter: `if name not in self._ds: _populate_…(self)`; `n` bounds the nesting -/
def getV (T : Table) : Nat → Var → St → St × Term
  | n, v, σ =>
    let σ1 : St :=
      match σ.1 v with
      | some _ => σ
      | none =>
        match n with
        | 0 => σ
        | n + 1 =>
          let u := T.unitOf v
          let σr := u.reads.foldl (fun s r => (getV T n r s).1) σ
          let σw := u.writes.foldl (doWrite σr.1) σr
          if T.wrapPop v then (wrapAll σw.1, σw.2) else σw
    let σ2 : St := if T.wrapGet v then (wrapAll σ1.1, σ1.2) else σ1
    (σ2, obsOf (σ2.1 v))

/-- read several variables (in order), collecting what each getter returned -/
def getMany (T : Table) (n : Nat) : List Var → St → St × List Term
  | [], σ => (σ, [])
  | v :: vs, σ =>
    let r := getV T n v σ
    let rs := getMany T n vs r.1
    (rs.1, r.2 :: rs.2)

/-! ## the reference: what a freshly opened copy returns (pure recursion, no store) -/

def staticCond (T : Table) (sig : Var → Bool) : Cond → Bool
  | .absent v => !sig v
  | .present v => sig v
  | .hasSide v => !sig v && T.sided v
  | .noSide v => sig v || !T.sided v

def applicable (T : Table) (sig : Var → Bool) (v : Var) (w : Write) : Bool :=
  w.var == v && w.guard.all (staticCond T sig)

def fresh (T : Table) (sig : Var → Bool) (s : Nat) : Nat → Var → Term
  | n, v =>
    if sig v then .src s v else
    match n with
    | 0 => .bad
    | n + 1 =>
      match (T.unitOf v).writes.find? (applicable T sig v) with
      | none => .bad
      | some w => mkApp w.fn (w.args.map (fun a => fresh T sig s n a.var))

/-- the reference value of a variable -/
def fr (T : Table) (sig : Var → Bool) (s : Nat) (v : Var) : Term := fresh T sig s (T.rk v + 1) v

/-! ## well-formed tables (decidable) -/

def condOwn (T : Table) (v : Var) : Cond → Bool
  | .absent x => T.unitOf x == T.unitOf v
  | .present x => T.unitOf x == T.unitOf v
  | .hasSide x => (T.unitOf v).reads.contains x
  | .noSide x => (T.unitOf v).reads.contains x

def argOK (T : Table) (v : Var) (w : Write) : Arg → Bool
  | .val x => (T.unitOf v).reads.contains x || w.guard.contains (.present x)
  | .side x => (T.unitOf v).reads.contains x && w.guard.contains (.hasSide x)

def wfVar (T : Table) (sig : Var → Bool) (v : Var) : Bool :=
  (T.unitOf v).writes.all (fun w =>
      T.unitOf w.var == T.unitOf v           -- W1 outputs belong to their unit
      && T.rk w.var == T.rk v                -- W9 … and sit at the same depth
      && !w.force && !w.leak && w.ranged     -- W2 no overwrite, no module write, wrapped
      && w.drops.isEmpty                     --    … and nothing is removed from the store
      && w.withSide == T.sided w.var         -- W7
      && w.guard.all (condOwn T v)           -- W3 presence tests look at own outputs only
      && w.args.all (argOK T v w))           -- W5 inputs are read first (or tested present)
  && (sig v || ((T.unitOf v).writes.any (applicable T sig v)          -- W4 some branch stores v
      && (T.unitOf v).reads.all (fun r => sig r || T.rk r < T.rk v))) -- W6 reads are shallower

def wfB (T : Table) (sig : Var → Bool) : Bool := Var.all.all (wfVar T sig)

/-! ## grids, worlds, operations -/

inductive CacheId
  | ball | kd | gdf | poly | line
  deriving DecidableEq, Repr

abbrev Key := List Nat

/-- methods: pure computations over stored variables.  `peek` inputs are taken from the store when
    present and recomputed otherwise (the Exodus encoder's `if "node_x" not in ds`). -/
structure Peek where
  var : Var
  fn : Nat
  args : List Var
  deriving DecidableEq, Repr

structure Method where
  reads : List Var
  fn : Nat
  peek : List Peek := []
  whenPresent : List (Var × List Var) := []   -- `if "x" in ds: <read these through their getters>`
  numpyOnly : List Var := []     -- as-is: fails when one of these is dask-backed
  forced : List Write := []      -- as-is: `compute_face_areas` stores its jacobian on the grid
  deriving Repr

/-- the cache behaviour of one cached method -/
structure CachePolicy where
  reads : Key → List Var
  fn : Key → Nat
  keyEq : Key → Key → Bool       -- the comparison performed on reuse
  keyStored : Key → Key          -- what is recorded next to the object
  keep : Key → Key → Bool := fun _ _ => false
                                 -- storing under the 2nd key keeps a slot stored under the 1st (the tree
                                 -- wrappers keep one slot per `coordinates` kind under one system/metric)
  guard : Key → Nat := fun _ => 0
                                 -- the bookkeeping handed back with the object (`_n_elements` of the
                                 -- requested kind: what `query(k=…)` accepts)
  staleGuard : Bool := false     -- seeded C08e: bookkeeping refreshed only when a slot is BUILT

structure Model where
  table : (Var → Bool) → Table
  method : Nat → Method
  cache : CacheId → CachePolicy
  openSide : Bool                -- as-is: a supplied variable copies the module template's side table

structure Grid where
  sig : List Var
  sid : Nat
  st : Store
  caches : CacheId → List (Key × Term) := fun _ => []
  guards : CacheId → Option Term := fun _ => none   -- the wrapper's `_n_elements` cell

def Grid.sigF (g : Grid) : Var → Bool := fun v => g.sig.contains v

structure World where
  grids : List Grid
  gl : Globals := {}

inductive Op
  | get (v : Var)
  | method (m : Nat)
  | cached (c : CacheId) (k : Key) (force store : Bool)
  | export_                       -- `to_xarray("ugrid")`
  | inventory                     -- `coordinates ∪ connectivity ∪ descriptors`, `sizes`, `dims`
  | chunk
  deriving DecidableEq, Repr

inductive Res
  | val (t : Term)
  | vars (l : List (Var × Term))
  | names (l : List Var)
  | err (code : Nat)
  | unit
  deriving DecidableEq, Repr

def FUEL : Nat := 32

/-- open a source: the supplied variables, in range (the constructor wraps), not chunked -/
def openGrid (M : Model) (gl : Globals) (sig : List Var) (sid : Nat) : Grid :=
  { sig := sig, sid := sid,
    st := fun v => if sig.contains v then
        some { val := .src sid v,
               side := if M.openSide && v == .edgeNode then gl.edgeSide else none }
      else none }

def exportOf (st : Store) : List (Var × Term) :=
  Var.all.filterMap (fun v => if v.inDs then (st v).map (fun e => (v, e.obs)) else none)

/-- `ds[v] if v in ds else f(ds[args])` -/
def peekVal (st : Store) (p : Peek) : Term :=
  match st p.var with
  | some e => e.obs
  | none => mkApp p.fn (p.args.map (fun a => argVal st (.val a)))

def chunkStore (st : Store) : Store := fun v =>
  if v.chunkable then (st v).map (fun e => { e with chunked := true }) else st v

def anyChunked (st : Store) (vs : List Var) : Bool :=
  vs.any (fun v => match st v with | some e => e.chunked | none => false)

/-- the object handed back by a cached method together with the bookkeeping that travels with it -/
def handback (t gd : Term) : Term := .ap (.ap (.fn 1) t) gd

/-- the bookkeeping of a request: a function of the request and of the source only -/
def guardTerm (P : CachePolicy) (sid : Nat) (k : Key) : Term := .ap (.fn (P.guard k)) (.src sid .faceNode)

/-- one operation on one grid (with the module globals threaded through) -/
def stepGrid (M : Model) (g : Grid) (gl : Globals) : Op → Grid × Globals × Res
  | .get v =>
    let r := getV (M.table g.sigF) FUEL v (g.st, gl)
    ({ g with st := r.1.1 }, r.1.2, .val r.2)
  | .method m =>
    let md := M.method m
    let T := M.table g.sigF
    let extra := md.whenPresent.flatMap (fun p => if (g.st p.1).isSome then p.2 else [])
    let r0 := getMany T FUEL extra (g.st, gl)
    let r := getMany T FUEL md.reads r0.1
    if anyChunked r.1.1 md.numpyOnly then ({ g with st := r.1.1 }, r.1.2, .err 1) else
    let t := mkApp md.fn (r.2 ++ md.peek.map (peekVal r.1.1))
    let σ := md.forced.foldl (doWrite r.1.1) r.1
    ({ g with st := σ.1 }, σ.2, .val t)
  | .cached c k force store =>
    let P := M.cache c
    let T := M.table g.sigF
    let gd := guardTerm P g.sid k
    match (if force then none else (g.caches c).find? (fun e => P.keyEq e.1 k)) with
    | some e =>
      -- the slot exists: the wrapper is switched to it and handed back
      if P.staleGuard then (g, gl, .val (handback e.2 ((g.guards c).getD .bad)))
      else ({ g with guards := fun c' => if c' = c then some gd else g.guards c' }, gl, .val (handback e.2 gd))
    | none =>
      let r := getMany T FUEL (P.reads k) (g.st, gl)
      let t := mkApp (P.fn k) r.2
      let cs := if store then
          (fun c' => if c' = c then (P.keyStored k, t) :: (g.caches c).filter (fun e => P.keep e.1 k)
                     else g.caches c')
        else g.caches
      ({ g with st := r.1.1, caches := cs, guards := fun c' => if c' = c then some gd else g.guards c' },
       r.1.2, .val (handback t gd))
  | .export_ => (g, gl, .vars (exportOf g.st))
  | .inventory => (g, gl, .names ((exportOf g.st).map Prod.fst))
  | .chunk => ({ g with st := chunkStore g.st }, gl, .unit)

/-- an event of a history: an operation on grid `i`, or opening another source -/
inductive Ev
  | on (i : Nat) (o : Op)
  | open_ (sig : List Var)
  deriving Repr

def World.step (M : Model) (w : World) : Ev → World × Res
  | .on i o =>
    match w.grids[i]? with
    | none => (w, .err 0)
    | some g =>
      let r := stepGrid M g w.gl o
      ({ grids := w.grids.set i r.1, gl := r.2.1 }, r.2.2)
  | .open_ sig =>
    ({ w with grids := w.grids ++ [openGrid M w.gl sig w.grids.length] }, .unit)

def World.run (M : Model) (w : World) (h : List Ev) : World := h.foldl (fun w e => (w.step M e).1) w

def World.res (M : Model) (w : World) (i : Nat) (o : Op) : Res := (w.step M (.on i o)).2

/-- the reference: the same call on a freshly opened copy of the same source, alone in a world
    with pristine module globals (source identifiers name the source, not the position) -/
def refRes (M : Model) (sig : List Var) (sid : Nat) (o : Op) : Res :=
  (stepGrid M (openGrid M {} sig sid) {} o).2.2

/-! ## function symbols (only their distinctness matters) -/
namespace F
def llOfXYZ := 1
def xyzOfLL := 2
def nPer := 3
def buildEdges := 4
def reshapeInverse := 5
def matchEdges := 6
def edgeFace := 7
def faceFace := 8
def nodeFace := 9
def centroidXYZ := 10
def centroidLL := 11
def llOfXYZnorm := 12
def edgeMidXYZ := 13
def edgeMidLL := 14
def areaDefault := 15
def jacDefault := 16
def noneVal := 17
def bounds := 18
def enDist := 19
def efDist := 20
def holes := 21
def enZ := 22
def amIdx := 23
def methodBase := 100
def cacheBase := 1000
end F

/-- the defects of the snapshot, switchable (all `false` = the repaired code) -/
structure Flags where
  leak : Bool := false          -- `_populate_edge_node_connectivity` writes into the module dict
  replace : Bool := false       -- `face_edge_connectivity` re-derives a supplied `edge_node_connectivity`
  numpyAreas : Bool := false    -- `compute_face_areas` hands `.data` (dask after chunk) to numba
  jacWrite : Bool := false      -- `compute_face_areas` stores `_face_jacobian` of ITS arguments
  treeKey : Bool := false       -- tree getters compare `coordinates` only
  lineKey : Bool := false       -- `to_linecollection` never records the projection
  rawNodeLon : Bool := false    -- derived `node_lon` left in [0, 360) until some other getter wraps
  incompleteEdges : Bool := false
      -- not a code variant but a SOURCE class: the supplied `edge_node_connectivity` does not list every
      -- edge of the faces, so `_populate_face_edge_connectivity` discards it (2e3b10c9: drops every
      -- variable along n_edge, re-derives the table)
  staleCount : Bool := false    -- (seeded C08e) the tree wrappers refresh `_n_elements` only when a slot is built
  deriving DecidableEq, Repr

/-- the stored variables along `n_edge` (what `_ds.drop_dims("n_edge")` removes) -/
def edgeDimVars : List Var := [.edgeLL, .edgeXYZ, .edgeNode, .edgeFace, .enDist, .efDist, .enZ]

open Var in
/-- transcription of `uxarray/grid/{grid,connectivity,coordinates,neighbors,geometry}.py` -/
def uxUnit (fl : Flags) (_sig : Var → Bool) : Var → Unit
  | nodeLL => ⟨[nodeXYZ], [{ var := nodeLL, fn := F.llOfXYZ, args := [.val nodeXYZ], ranged := !fl.rawNodeLon }]⟩
  | nodeXYZ => ⟨[nodeLL], [{ var := nodeXYZ, fn := F.xyzOfLL, args := [.val nodeLL] }]⟩
  | faceNode => ⟨[], []⟩
  | nPer => ⟨[faceNode], [{ var := nPer, fn := F.nPer, args := [.val faceNode] }]⟩
  | edgeNode => ⟨[faceNode],
      [{ var := edgeNode, fn := F.buildEdges, args := [.val faceNode], withSide := true, leak := fl.leak }]⟩
  | faceEdge =>
      if fl.replace then
        ⟨[edgeNode, faceNode],
         [{ var := edgeNode, guard := [.noSide edgeNode], fn := F.buildEdges, args := [.val faceNode],
            force := true, withSide := true, leak := fl.leak },
          { var := faceEdge, fn := F.reshapeInverse, args := [.side edgeNode] }]⟩
      else if fl.incompleteEdges then
        -- the lookup of the faces' edges in the supplied table fails (returns None): every variable along
        -- n_edge is dropped, the table re-derived, the faces' edges numbered by the new one
        ⟨[edgeNode, faceNode],
         [{ var := edgeNode, guard := [.noSide edgeNode], fn := F.buildEdges, args := [.val faceNode],
            force := true, withSide := true, drops := edgeDimVars },
          { var := faceEdge, fn := F.reshapeInverse, args := [.side edgeNode] }]⟩
      else
        ⟨[edgeNode, faceNode],
         [{ var := faceEdge, guard := [.hasSide edgeNode], fn := F.reshapeInverse, args := [.side edgeNode] },
          { var := faceEdge, guard := [.noSide edgeNode], fn := F.matchEdges, args := [.val faceNode, .val edgeNode] }]⟩
  | edgeFace => ⟨[faceEdge, nPer, edgeNode], [{ var := edgeFace, fn := F.edgeFace, args := [.val faceEdge, .val nPer] }]⟩
  | faceFace => ⟨[edgeFace, faceEdge], [{ var := faceFace, fn := F.faceFace, args := [.val edgeFace] }]⟩
  | nodeFace => ⟨[faceNode], [{ var := nodeFace, fn := F.nodeFace, args := [.val faceNode] }]⟩
  | faceLL | faceXYZ => ⟨[nodeXYZ, faceNode, nPer],
      [{ var := faceLL, guard := [.absent faceLL, .absent faceXYZ], fn := F.centroidLL, args := [.val nodeXYZ, .val faceNode, .val nPer] },
       { var := faceLL, guard := [.absent faceLL, .present faceXYZ], fn := F.llOfXYZnorm, args := [.val faceXYZ] },
       { var := faceXYZ, guard := [.absent faceLL, .absent faceXYZ], fn := F.centroidXYZ, args := [.val nodeXYZ, .val faceNode, .val nPer] },
       { var := faceXYZ, guard := [.present faceLL, .absent faceXYZ], fn := F.xyzOfLL, args := [.val faceLL] }]⟩
  | edgeLL | edgeXYZ => ⟨[nodeXYZ, edgeNode],
      [{ var := edgeLL, guard := [.absent edgeLL, .absent edgeXYZ], fn := F.edgeMidLL, args := [.val nodeXYZ, .val edgeNode] },
       { var := edgeLL, guard := [.absent edgeLL, .present edgeXYZ], fn := F.llOfXYZnorm, args := [.val edgeXYZ] },
       { var := edgeXYZ, guard := [.absent edgeLL, .absent edgeXYZ], fn := F.edgeMidXYZ, args := [.val nodeXYZ, .val edgeNode] },
       { var := edgeXYZ, guard := [.present edgeLL, .absent edgeXYZ], fn := F.xyzOfLL, args := [.val edgeLL] }]⟩
  -- `face_jacobian`: `if self._face_jacobian is None: _, self._face_jacobian = self.compute_face_areas()`
  -- (whether or not `face_areas` is stored; it no longer touches `face_areas`)
  | jac => ⟨[nodeLL, faceNode, nPer],
      [{ var := jac, fn := F.jacDefault, args := [.val nodeLL, .val faceNode, .val nPer] }]⟩
  -- `face_areas`: `face_areas, self._face_jacobian = self.compute_face_areas()`; the jacobian it leaves
  -- in the cell is the one the `face_jacobian` unit computes (same call, same inputs), transcribed as
  -- a read of that cell before the areas are stored
  | areas => ⟨[nodeLL, faceNode, nPer, jac],
      [{ var := areas, fn := F.areaDefault, args := [.val nodeLL, .val faceNode, .val nPer] }]⟩
  | bounds => ⟨[faceNode, faceEdge, nodeXYZ, nodeLL], [{ var := bounds, fn := F.bounds, args := [.val faceNode, .val nodeXYZ, .val nodeLL] }]⟩
  | enDist => ⟨[nodeLL, edgeNode], [{ var := enDist, fn := F.enDist, args := [.val nodeLL, .val edgeNode] }]⟩
  | efDist => ⟨[faceLL, edgeFace], [{ var := efDist, fn := F.efDist, args := [.val faceLL, .val edgeFace] }]⟩
  | holes => ⟨[edgeFace], [{ var := holes, fn := F.holes, args := [.val edgeFace] }]⟩
  | enZ => ⟨[nodeXYZ, edgeNode], [{ var := enZ, fn := F.enZ, args := [.val nodeXYZ, .val edgeNode] }]⟩
  | amIdx => ⟨[nodeLL, faceNode, nPer], [{ var := amIdx, fn := F.amIdx, args := [.val nodeLL, .val faceNode, .val nPer] }]⟩

open Var in
def uxRank : Var → Nat
  | nodeLL | nodeXYZ | faceNode => 0
  | nPer | edgeNode | nodeFace => 1
  | faceEdge => 2
  | edgeFace => 3
  | faceFace | holes => 4
  | faceLL | faceXYZ | edgeLL | edgeXYZ | jac | amIdx | enDist | enZ => 2
  | bounds | areas => 3
  | efDist => 4

def uxTable (fl : Flags) (sig : Var → Bool) : Table :=
  { unitOf := uxUnit fl sig
    rk := uxRank
    sided := fun v => v == .edgeNode
    -- node_lon / node_lat / face_lon / face_lat wrap after populating; edge_lon / edge_lat always
    wrapPop := fun v => (v == .nodeLL && !fl.rawNodeLon) || v == .faceLL
    wrapGet := fun v => v == .edgeLL }

/-! ### methods (ids shared with harness/c08.py) -/

/-- `_slice_face_indices` (every `isel` / `subset.*` / cross section): when `edge_face_distances` is
    stored it reads the SOURCE grid's `edge_face_connectivity` through its getter -/
def sliceCond : List (Var × List Var) := [(.efDist, [.edgeFace])]

open Var in
def uxMethod (fl : Flags) (m : Nat) : Method :=
  let areaM (reads : List Var) : Method :=
    { reads := reads, fn := F.methodBase + m,
      numpyOnly := if fl.numpyAreas then [nodeLL, nodeXYZ] else [],
      forced := if fl.jacWrite then
          [{ var := jac, fn := F.methodBase + 500 + m, args := reads.map Arg.val, force := true }] else [] }
  match m with
  -- compute_face_areas(rule, order, latlon=True) / calculate_total_face_area : ids 0..9
  | 0 | 1 | 2 | 3 | 4 | 5 | 6 | 7 | 8 | 9 => areaM [nodeLL, faceNode, nPer]
  -- compute_face_areas(rule, order, latlon=False) : ids 10..19
  | 10 | 11 | 12 | 13 | 14 | 15 | 16 | 17 | 18 | 19 => areaM [nodeXYZ, faceNode, nPer]
  | 20 => { reads := [faceNode], fn := F.methodBase + m,
            peek := [⟨nodeXYZ, F.xyzOfLL, [nodeLL]⟩] }                                 -- to_xarray("exodus")
  | 21 => { reads := [faceNode, nodeLL, areas], fn := F.methodBase + m }               -- to_xarray("scrip")
  | 22 => { reads := [faceNode, faceEdge], fn := F.methodBase + m, whenPresent := sliceCond }                    -- isel(n_face=…)
  | 23 => { reads := [nodeFace, faceNode, faceEdge], fn := F.methodBase + m, whenPresent := sliceCond }          -- isel(n_node=…)
  | 24 => { reads := [edgeFace, faceNode, faceEdge], fn := F.methodBase + m, whenPresent := sliceCond }          -- isel(n_edge=…)
  | 25 => { reads := [nodeLL, nodeFace, faceNode, faceEdge], fn := F.methodBase + m, whenPresent := sliceCond }  -- subset.* on nodes
  | 26 => { reads := [faceLL, faceNode, faceEdge], fn := F.methodBase + m, whenPresent := sliceCond }            -- subset.* on face centers
  | 27 => { reads := [edgeLL, edgeFace, faceNode, faceEdge], fn := F.methodBase + m, whenPresent := sliceCond }  -- subset.* on edge centers
  | 28 => { reads := [nodeLL, faceLL, nodeFace, nodeXYZ, faceXYZ], fn := F.methodBase + m }  -- get_dual
  | 29 => { reads := [faceNode], fn := F.methodBase + m }                              -- copy (digest of the copy)
  | 30 => { reads := [enZ, edgeNode], fn := F.methodBase + m }                         -- get_edges_at_constant_latitude
  | 31 => { reads := [enZ, edgeNode, edgeFace], fn := F.methodBase + m }               -- get_faces_at_constant_latitude
  | 32 => { reads := [enZ, edgeNode, edgeFace, faceNode, faceEdge], fn := F.methodBase + m, whenPresent := sliceCond }  -- cross_section.constant_latitude
  | 33 => { reads := [nPer], fn := F.methodBase + m }                                  -- repr
  | 34 => { reads := [nodeLL, faceNode, areas], fn := F.methodBase + m }               -- validate
  | 35 => { reads := [faceNode], fn := F.methodBase + m }                              -- n_max_face_nodes, n_face, n_node, attrs …
  | 36 => { reads := [edgeNode], fn := F.methodBase + m }                              -- n_edge
  | 37 => { reads := [faceEdge], fn := F.methodBase + m }                              -- n_max_face_edges
  | 38 => { reads := [faceFace], fn := F.methodBase + m }                              -- n_max_face_faces
  | 39 => { reads := [nodeFace], fn := F.methodBase + m }                              -- n_max_node_faces
  | _ => { reads := [], fn := F.methodBase + m }                                       -- NotImplementedError getters

/-! ### caches.  Tree key = [coordinates, system, metric]; plot key = [periodic_elements, projection, engine] -/

open Var in
def treeReads (k : Key) : List Var :=
  match k with
  | [0, 0, _] => [nodeLL]          -- nodes, spherical
  | [0, _, _] => [nodeXYZ]
  | [1, 0, _] => [faceLL]          -- face centers
  | [1, _, _] => [faceXYZ]
  | [2, 0, _] => [edgeNode, edgeLL]   -- edge centers: `n_edge` first (the getter of edge_lon wraps)
  | [2, _, _] => [edgeNode, edgeXYZ]
  | _ => []

def keyCode (k : Key) : Nat := k.foldl (fun a x => a * 16 + x + 1) 0

open Var in
def uxCache (fl : Flags) : CacheId → CachePolicy
  | .ball => { reads := treeReads, fn := fun k => F.cacheBase + keyCode k,
               keyEq := fun a b => if fl.treeKey then a.head? == b.head? else a == b, keyStored := id,
               keep := fun a b => a.drop 1 == b.drop 1, guard := fun k => 2000 + k.headD 0,
               staleGuard := fl.staleCount }
  | .kd => { reads := treeReads, fn := fun k => F.cacheBase + 100000 + keyCode k,
             keyEq := fun a b => if fl.treeKey then a.head? == b.head? else a == b, keyStored := id,
             keep := fun a b => a.drop 1 == b.drop 1, guard := fun k => 2000 + k.headD 0,
             staleGuard := fl.staleCount }
  | .gdf => { reads := fun _ => [nodeLL, faceNode, nPer], fn := fun k => F.cacheBase + 200000 + keyCode k,
              keyEq := fun a b => a == b, keyStored := id }
  | .poly => { reads := fun _ => [nodeLL, faceNode, nPer], fn := fun k => F.cacheBase + 300000 + keyCode k,
               keyEq := fun a b => a == b, keyStored := id }
  | .line => { reads := fun _ => [nodeLL, faceNode, nPer], fn := fun k => F.cacheBase + 400000 + keyCode k,
               keyEq := fun a b => a == b,
               -- as-is: the projection (second key field) is never recorded: stays None = 0
               keyStored := fun k => if fl.lineKey then k.set 1 0 else k }

def uxModel (fl : Flags) : Model :=
  { table := uxTable fl, method := uxMethod fl, cache := uxCache fl, openSide := fl.leak }

def repaired : Flags := {}
def snapshot : Flags :=
  { leak := true, replace := true, numpyAreas := true, jacWrite := true, treeKey := true,
    lineKey := true, rawNodeLon := true }

def sigOf (l : List Var) : Var → Bool := fun v => l.contains v

/-! ## the decidable Spec evaluated on the implementation's observations (driver `C08.spec`)

  A step of an observed trace, with values abstracted to identifiers (digests):
  * `value obs ref`            — the observation must equal the reference;
  * `super obs ref derived`    — exports / inventories: `obs ⊇ ref`, and every extra entry `(name, v)`
                                 is a derived variable whose value a fresh grid also reports
                                 (`derived` lists `(name, fresh value)`);
  * `globals before after init` — module-level containers unchanged. -/

inductive Step (α : Type)
  | value (obs ref : α)
  | super (obs ref derived : List (Nat × α))
  | globals (before after init : α)

def stepOK {α : Type} [DecidableEq α] : Step α → Bool
  | .value o r => o == r
  | .super o r d => r.all (fun p => o.contains p) && o.all (fun p => r.contains p || d.contains p)
  | .globals b a i => b == a && a == i

def traceOK {α : Type} [DecidableEq α] (t : List (Step α)) : Bool := t.all stepOK

def firstBad {α : Type} [DecidableEq α] (t : List (Step α)) : Option Nat :=
  (t.zipIdx.find? (fun p => !stepOK p.1)).map Prod.snd

end UxVerif.Caches
