/-
  UxVerif.Model.Heap — a heap of references (C19).

  Python objects that can be mutated (ndarray buffers, attribute dictionaries, `xarray.Variable`,
  `xarray.Dataset`, `Grid`, cached GeoDataFrames / collections) are *cells*; a cell carries a
  payload (bytes / scalars, canonicalised to integers) and named references to other cells
  (dictionary entries, object fields).  An address is an index into the heap; allocation appends.

  Part 1 (generic): reachability, separation, frame, path-addressed mutator actions.
  Part 2 (verified checkers): `judge` (separated / shared-with-witness) and `frameJ` (unchanged /
           changed-with-witness) — run by the driver on the object graph extracted from the REAL
           Python objects and on the model's own heaps.  Their answers are certified by theorems in
           `Props/C19.lean`, the search inside them (`reachList`) is not trusted.
  Part 3 (uxarray): constructors, `Grid.copy`, exporters and public mutators as heap operations that
           either alias or allocate: what the code does (`…AsIs`) and what it does once the proposed
           repairs `fixes/C19-*.patch` are applied.

  Import-free (core Lean only): linked into `drv_c19`.
-/
namespace UxVerif.Heap

/-! ## 1. generic heap -/

structure Cell where
  data : List Int
  refs : List (Nat × Nat)
deriving DecidableEq, Repr

abbrev Heap := List Cell
abbrev Path := List Nat

/-- addresses a cell refers to -/
def succs (h : Heap) (a : Nat) : List Nat :=
  match h[a]? with
  | some c => c.refs.map Prod.snd
  | none => []

/-- `x` is reachable from the root `r` by following references -/
inductive Reach (h : Heap) (r : Nat) : Nat → Prop
  | refl : Reach h r r
  | step {a b : Nat} : Reach h r a → b ∈ succs h a → Reach h r b

/-- no dangling reference -/
def WF (h : Heap) : Prop := ∀ a b, b ∈ succs h a → b < h.length

/-- the two objects share no cell -/
def Sep (h : Heap) (r s : Nat) : Prop := ∀ x, Reach h r x → Reach h s x → False

/-- every cell reachable from `r` (in `h`) is the same cell in `h'`: nothing the object `r` can
    see — payloads, dictionary keys, references — was modified between `h` and `h'` -/
def Frame (h h' : Heap) (r : Nat) : Prop := ∀ x, Reach h r x → h'[x]? = h[x]?

/-- first reference stored under key `k` -/
def look (k : Nat) : List (Nat × Nat) → Option Nat
  | [] => none
  | (k', b) :: l => if k' = k then some b else look k l

def field (h : Heap) (a k : Nat) : Option Nat :=
  match h[a]? with
  | some c => look k c.refs
  | none => none

/-- follow field names from a root -/
def follow (h : Heap) : Nat → Path → Option Nat
  | a, [] => some a
  | a, k :: p =>
    match field h a k with
    | some b => follow h b p
    | none => none

def setData (d : List Int) (c : Cell) : Cell := { c with data := d }
def setRef (k b : Nat) (c : Cell) : Cell := { c with refs := (k, b) :: c.refs.filter (fun p => p.1 != k) }
def delRef (k : Nat) (c : Cell) : Cell := { c with refs := c.refs.filter (fun p => p.1 != k) }

/-- What a public mutator called on the object rooted at `r` can do.  Targets are addressed by
    PATHS FROM THE OBJECT'S OWN ROOT, so an action can only touch what its object reaches, or
    allocate:
    * `write`  – in-place change of a payload (`arr[i] = v`, `attrs[k] = v` for immutable `v`)
    * `unlink` – delete a dictionary entry / field
    * `link`   – make a field point at another cell of the same object
    * `fresh`  – allocate a new cell (payload `d`, references to own cells) and store it in a field
                 (lazy derivation, property setter, `.data = new`, `chunk`, …) -/
inductive Act
  | write (p : Path) (d : List Int)
  | unlink (p : Path) (k : Nat)
  | link (p : Path) (k : Nat) (q : Path)
  | fresh (p : Path) (k : Nat) (d : List Int) (kids : List (Nat × Path))
deriving Repr

def resolveKids (h : Heap) (r : Nat) : List (Nat × Path) → List (Nat × Nat)
  | [] => []
  | (k, q) :: l =>
    match follow h r q with
    | some b => (k, b) :: resolveKids h r l
    | none => resolveKids h r l

/-- replace the cell at `a` (which must exist) and append `ext` -/
def upd (h : Heap) (a : Nat) (c' : Cell) (ext : List Cell) : Heap := h.set a c' ++ ext

def applyAct (h : Heap) (r : Nat) : Act → Heap
  | .write p d =>
    match follow h r p with
    | some a => match h[a]? with
      | some c => upd h a (setData d c) []
      | none => h
    | none => h
  | .unlink p k =>
    match follow h r p with
    | some a => match h[a]? with
      | some c => upd h a (delRef k c) []
      | none => h
    | none => h
  | .link p k q =>
    match follow h r p, follow h r q with
    | some a, some b => match h[a]? with
      | some c => upd h a (setRef k b c) []
      | none => h
    | _, _ => h
  | .fresh p k d kids =>
    match follow h r p with
    | some a => match h[a]? with
      | some c => upd h a (setRef k h.length c) [⟨d, resolveKids h r kids⟩]
      | none => h
    | none => h

/-- a history of mutator calls on ONE object -/
def runActs (h : Heap) (r : Nat) (acts : List Act) : Heap := acts.foldl (fun h a => applyAct h r a) h

/-- an interleaved history on two objects: `(false, a)` acts on `r`, `(true, a)` acts on `s` -/
def runBoth (h : Heap) (r s : Nat) (acts : List (Bool × Act)) : Heap :=
  acts.foldl (fun h a => applyAct h (if a.1 then s else r) a.2) h

/-! ## 2. verified checkers -/

def wfB (h : Heap) : Bool := h.all fun c => c.refs.all fun p => decide (p.2 < h.length)

/-- one round of expansion: every successor not yet listed is appended with a path to it -/
def expand (h : Heap) (S : List (Nat × Path)) : List (Nat × Path) :=
  S.foldl (fun acc ap =>
    match h[ap.1]? with
    | some c => c.refs.foldl (fun acc kb =>
        if acc.any (fun x => x.1 == kb.2) then acc else acc ++ [(kb.2, ap.2 ++ [kb.1])]) acc
    | none => acc) S

def closure (h : Heap) : Nat → List (Nat × Path) → List (Nat × Path)
  | 0, S => S
  | f + 1, S =>
    let S' := expand h S
    if S'.length == S.length then S else closure h f S'

/-- candidate reachable set with a path to each member (NOT trusted: validated by `closedB`/`follow`) -/
def reachList (h : Heap) (r : Nat) : List (Nat × Path) := closure h (h.length + 1) [(r, [])]

def closedB (h : Heap) (S : List Nat) : Bool := S.all fun a => (succs h a).all fun b => S.contains b

inductive Verdict
  | sep
  | shared (x : Nat) (pa pb : Path)
  | unknown
deriving DecidableEq, Repr

/-- do the objects rooted at `a` and `b` share a cell?  `sep` is answered only with two closed,
    disjoint sets around the roots; `shared` only with a cell and a verified path to it from
    either root. -/
def judge (h : Heap) (a b : Nat) : Verdict :=
  let RA := reachList h a
  let RB := reachList h b
  let SA := RA.map Prod.fst
  let SB := RB.map Prod.fst
  match RA.find? (fun x => SB.contains x.1) with
  | some xa =>
    match RB.find? (fun y => y.1 == xa.1) with
    | some yb =>
      if follow h a xa.2 = some xa.1 ∧ follow h b yb.2 = some xa.1 then .shared xa.1 xa.2 yb.2
      else .unknown
    | none => .unknown
  | none =>
    if SA.contains a && SB.contains b && closedB h SA && closedB h SB
        && SA.all (fun x => !SB.contains x) then .sep else .unknown

inductive FrameV
  | ok
  | changed (x : Nat) (p : Path)
  | unknown
deriving DecidableEq, Repr

/-- is every cell reachable from `r` in `h` the same cell in `h'`? -/
def frameJ (h h' : Heap) (r : Nat) : FrameV :=
  let R := reachList h r
  match R.find? (fun x => decide (h'[x.1]? ≠ h[x.1]?)) with
  | some xp => if follow h r xp.2 = some xp.1 ∧ h'[xp.1]? ≠ h[xp.1]? then .changed xp.1 xp.2 else .unknown
  | none =>
    if (R.map Prod.fst).contains r && closedB h (R.map Prod.fst)
        && (R.map Prod.fst).all (fun x => decide (h'[x]? = h[x]?)) then .ok else .unknown

/-! ## 3. uxarray objects as heap operations

  Layout.  `Grid` cell: `kDs ↦ Dataset`, `kGdf/kLine ↦ cached export`, `kDims ↦ source_dims_dict`.
  `Dataset` cell: `kAttrs ↦ attrs dict`, `v+1 ↦ Variable v`.
  `Variable` cell: `kAttrs ↦ attrs dict`, `kData ↦ buffer`.  Buffers and dicts are leaves. -/

def kAttrs : Nat := 0
def kData : Nat := 1
def kDs : Nat := 0
def kGdf : Nat := 7
def kLine : Nat := 2
def kDims : Nat := 4
def kPoly : Nat := 3
def kBall : Nat := 5
def kKd : Nat := 6
/-- inside a cached helper object (`BallTree`, `KDTree`): the reference back to the grid it was
    built from (`_source_grid`) -/
def kSrc : Nat := 0
/-- key of variable `v` inside a Dataset cell (even, so that it never collides with `kData`) -/
def kVar (v : Nat) : Nat := 2 * v + 2

structure VarSpec where
  name : Nat
  data : List Int
  attrs : List Int
  /-- `some b`: wrap the existing buffer `b` without copying (what `xr.DataArray(data=arr)` does) -/
  alias : Option Nat := none
deriving Repr

def allocVar (h : Heap) (v : VarSpec) : Heap × Nat :=
  let n := h.length
  match v.alias with
  | some b => (h ++ [⟨v.attrs, []⟩, ⟨[], [(kAttrs, n), (kData, b)]⟩], n + 1)
  | none => (h ++ [⟨v.data, []⟩, ⟨v.attrs, []⟩, ⟨[], [(kAttrs, n + 1), (kData, n)]⟩], n + 2)

def allocVars : Heap → List VarSpec → Heap × List (Nat × Nat)
  | h, [] => (h, [])
  | h, v :: vs =>
    let r1 := allocVar h v
    let r2 := allocVars r1.1 vs
    (r2.1, (kVar v.name, r1.2) :: r2.2)

/-- a new Dataset (its attrs dict, its variables); returns its address -/
def allocDs (h : Heap) (vs : List VarSpec) (attrs : List Int) : Heap × Nat :=
  let r := allocVars h vs
  (r.1 ++ [⟨attrs, []⟩, ⟨[], (kAttrs, r.1.length) :: r.2⟩], r.1.length + 1)

/-- a new Grid around a new Dataset (`Grid.__init__` after a reader built `grid_ds`): allocation only -/
def allocGrid (h : Heap) (vs : List VarSpec) (attrs spec : List Int) : Heap × Nat :=
  let r := allocDs h vs attrs
  (r.1 ++ [⟨[], []⟩, ⟨spec, [(kDs, r.2), (kDims, r.1.length)]⟩], r.1.length + 1)

/-- **constructor, repaired** (`from_topology`, `from_face_vertices`, `from_dataset` through a reader):
    the inputs are only read; coordinate buffers may be wrapped (alias), processed connectivity is a
    new array. -/
def build (h : Heap) (vs : List VarSpec) (attrs spec : List Int) : Heap × Nat :=
  allocGrid h vs attrs spec

/-- **constructor, as the code stands** for int64 connectivity with a non-standard fill value or
    a start index ≠ 0: `_replace_fill_values` / `conn[...] -= start_index` write the standardised
    table INTO the caller's array `inp`, which the grid then wraps. -/
def buildAsIs (h : Heap) (inp : Nat) (processed : List Int) (vs : List VarSpec) (attrs spec : List Int) :
    Heap × Nat :=
  allocGrid (h.modify inp (setData processed)) vs attrs spec

/-- **`Grid(ds, …)` / `from_dataset(ds, source_grid_spec=…)`** (as the code stands; known finding):
    the caller's Dataset BECOMES `Grid._ds`; when a longitude exceeds 180 the constructor rebinds
    the data of the dataset's `node_lon` variable. -/
def adopt (h : Heap) (ds : Nat) (lonVar : Nat) (wrapped : Option (List Int)) (spec : List Int) : Heap × Nat :=
  let h1 := match wrapped with
    | some d => applyAct h ds (.fresh [kVar lonVar] kData d [])
    | none => h
  (h1 ++ [⟨[], []⟩, ⟨spec, [(kDs, ds), (kDims, h1.length)]⟩], h1.length + 1)

/-! ### deep copy = relocate a duplicate of the heap

  `Dataset.copy(deep=True)` duplicates every cell reachable from the dataset.  Duplicating
  *every* cell (reachable or not) and shifting all references of the duplicate by the old size is
  observationally the same thing — unreachable duplicates cannot be seen — and needs no traversal. -/

def shiftCell (n : Nat) (c : Cell) : Cell := { c with refs := c.refs.map fun p => (p.1, p.2 + n) }

def dup (h : Heap) : Heap := h ++ h.map (shiftCell h.length)

/-- **`Grid.copy()`, repaired**: a new Grid around a deep copy of `_ds` and a copy of the
    dims dictionary; caches start empty. -/
def copyGrid (h : Heap) (g : Nat) : Heap × Nat :=
  match h[g]?, field h g kDs, field h g kDims with
  | some c, some ds, some dm =>
    (dup h ++ [⟨c.data, [(kDs, ds + h.length), (kDims, dm + h.length)]⟩], 2 * h.length)
  | _, _, _ => (h, g)

/-- **`Grid.copy()` as the code stands**: `Grid(self._ds, …, self._source_dims_dict)` -/
def copyGridAsIs (h : Heap) (g : Nat) : Heap × Nat :=
  match h[g]?, field h g kDs, field h g kDims with
  | some c, some ds, some dm => (h ++ [⟨c.data, [(kDs, ds), (kDims, dm)]⟩], h.length)
  | _, _, _ => (h, g)

/-- **`to_xarray("ugrid")` / `encode_as("UGRID")`, repaired**: encode a deep copy of `_ds`
    (the `grid_topology` variable `topo` is added to the copy).  Returns the exported Dataset. -/
def exportUgrid (h : Heap) (g : Nat) (topo : Nat) : Heap × Nat :=
  match field h g kDs with
  | some ds =>
    let n := h.length
    (applyAct (dup h) (ds + n) (.fresh [] (kVar topo) [-1] []), ds + n)
  | none => (h, g)

/-- **`to_xarray("ugrid")` as the code stands** (first call): `grid_topology` is stored into
    `Grid._ds` and `Grid._ds` itself is returned. -/
def exportUgridAsIs (h : Heap) (g : Nat) (topo : Nat) : Heap × Nat :=
  match field h g kDs with
  | some ds => (applyAct h ds (.fresh [] (kVar topo) [-1] []), ds)
  | none => (h, g)

/-- **value exporters** (`to_xarray("exodus")`, `to_xarray("scrip")` once repaired,
    `to_polycollection` which deep-copies its cache, `to_geodataframe(cache=False)`): a new object
    built from values. -/
def exportFresh (h : Heap) (vs : List VarSpec) (attrs : List Int) : Heap × Nat :=
  allocDs h (vs.map fun v => { v with alias := none }) attrs

/-- **caching exporters as the code stands** (`to_geodataframe`, `to_linecollection`; known
    finding): the object stored in the grid's cache is the object handed to the caller. -/
def exportCached (h : Heap) (g : Nat) (k : Nat) (content : List Int) : Heap × Nat :=
  match field h g k with
  | some e => (h, e)
  | none =>
    match h[g]? with
    | some _ => (applyAct h g (.fresh [] k content []), h.length)
    | none => (h, g)

/-! ### public mutators as action lists on the object's own root (grid root `g`: paths start with `kDs`) -/

inductive Mut
  /-- lazy derivation / setter / `chunk` / `construct_face_centers`: a new Variable stored under a name -/
  | setVar (v : Nat) (data attrs : List Int)
  /-- in-place write into a variable's buffer -/
  | writeVar (v : Nat) (data : List Int)
  /-- `.data = new_array` on an existing variable (`normalize_cartesian_coordinates`, longitude wrap) -/
  | rebind (v : Nat) (data : List Int)
  /-- `var.attrs[k] = …` -/
  | varAttr (v : Nat) (attrs : List Int)
  /-- `ds.attrs[k] = …` / `grid.attrs[k] = …` -/
  | dsAttr (attrs : List Int)
  | delVar (v : Nat)
  /-- edit of an opaque exported object (GeoDataFrame column, collection property) -/
  | writeRoot (data : List Int)
deriving Repr

/-- actions of a mutator on a DATASET root -/
def Mut.actsDs : Mut → List Act
  | .setVar v d a => [.fresh [] (kVar v) [] [], .fresh [kVar v] kData d [], .fresh [kVar v] kAttrs a []]
  | .writeVar v d => [.write [kVar v, kData] d]
  | .rebind v d => [.fresh [kVar v] kData d []]
  | .varAttr v a => [.write [kVar v, kAttrs] a]
  | .dsAttr a => [.write [kAttrs] a]
  | .delVar v => [.unlink [] (kVar v)]
  | .writeRoot d => [.write [] d]

def prefixAct (k : Nat) : Act → Act
  | .write p d => .write (k :: p) d
  | .unlink p j => .unlink (k :: p) j
  | .link p j q => .link (k :: p) j (k :: q)
  | .fresh p j d kids => .fresh (k :: p) j d (kids.map fun x => (x.1, k :: x.2))

/-- actions of a mutator on a GRID root (everything goes through `_ds`) -/
def Mut.actsGrid (m : Mut) : List Act := m.actsDs.map (prefixAct kDs)

/-! ### lazily filled caches of a grid (`_ball_tree`, `_kd_tree`, cached GeoDataFrame / collections, …)

  Everything `Grid.__init__` sets to `None` and a later call fills is a field of the Grid cell.  A helper
  object such as `BallTree` keeps a reference BACK to its grid and is switched in place by
  `get_ball_tree(coordinates=…)`. -/

inductive CacheOp
  /-- first `get_ball_tree()` / `to_geodataframe()` …: a new helper object referring back to its grid -/
  | fill (k : Nat) (d : List Int)
  /-- `get_ball_tree(coordinates=…)` on an existing tree: the SAME object answers for another kind -/
  | switch (k : Nat) (d : List Int)
  | drop (k : Nat)
deriving Repr

def CacheOp.acts : CacheOp → List Act
  | .fill k d => [.fresh [] k d [(kSrc, [])]]
  | .switch k d => [.write [k] d]
  | .drop k => [.unlink [] k]

/-- everything the public API can do to a grid: mutate its dataset or fill / switch / drop a cache -/
inductive GridOp
  | data (m : Mut)
  | cache (c : CacheOp)
deriving Repr

def GridOp.acts : GridOp → List Act
  | .data m => m.actsGrid
  | .cache c => c.acts

/-- every grid operation EXCEPT an in-place write into an array (the one operation that goes through a
    data reference); a Grid cell has no data reference, so its cache keys differ from `kData` -/
def GridOp.noArrayWrite : GridOp → Prop
  | .data (.writeVar _ _) => False
  | .cache (.switch k _) => k ≠ kData
  | _ => True

/-- **seeded regression** (`copy()` handing over helper objects that were already built, e.g.
    `grid._ball_tree = self._ball_tree`): the copy's cell also refers to the original's caches `keys`. -/
def copyGridHandOver (h : Heap) (g : Nat) (keys : List Nat) : Heap × Nat :=
  match h[g]?, field h g kDs, field h g kDims with
  | some c, some ds, some dm =>
    (dup h ++ [⟨c.data, [(kDs, ds + h.length), (kDims, dm + h.length)] ++
        c.refs.filter (fun p => keys.contains p.1 && p.1 != kDs && p.1 != kDims)⟩], 2 * h.length)
  | _, _, _ => (h, g)


/-! ### which heap operation each public call IS (the model of the code, as-is and repaired) -/

/-- read a dataset's variables back as specs that WRAP the existing buffers (shallow copy) -/
def dsVarsShallow (h : Heap) (ds : Nat) : List VarSpec :=
  match h[ds]? with
  | some c => c.refs.filterMap fun kv =>
      if kv.1 = kAttrs then none else
      some { name := (kv.1 - 2) / 2, data := [],
             attrs := match field h kv.2 kAttrs with
               | some a => (match h[a]? with | some ac => ac.data | none => [])
               | none => [],
             alias := field h kv.2 kData }
  | none => []

def dsAttrsData (h : Heap) (ds : Nat) : List Int :=
  match field h ds kAttrs with
  | some a => (match h[a]? with | some ac => ac.data | none => [])
  | none => []

/-- `ds.drop_vars(...)` then assignment: a new Dataset with new Variable objects and new attribute
    dictionaries around the SAME buffers (what `to_xarray("ugrid")` returns today when
    `grid_topology` is already stored in `Grid._ds`). -/
def exportShallowAsIs (h : Heap) (g : Nat) : Heap × Nat :=
  match field h g kDs with
  | some ds => allocDs h (dsVarsShallow h ds) (dsAttrsData h ds)
  | none => (h, g)

/-- **`Grid(ds, …)` / `from_dataset(ds, source_grid_spec=…)`, repaired** (`fixes/C19-init-adopts-dataset.patch`):
    `self._ds = grid_ds.copy()` — a new Dataset with new Variable objects and attribute dictionaries around
    the caller's arrays; a longitude above 180 is re-wrapped in the NEW variable. -/
def adoptShallow (h : Heap) (ds : Nat) (lonVar : Nat) (wrapped : Option (List Int)) (spec : List Int) : Heap × Nat :=
  let r := allocGrid h (dsVarsShallow h ds) (dsAttrsData h ds) spec
  match wrapped with
  | some d => (applyAct r.1 r.2 (.fresh [kDs, kVar lonVar] kData d []), r.2)
  | none => r

/-- the cell an action modifies (if its path resolves) -/
def actTarget (h : Heap) (r : Nat) : Act → Option Nat
  | .write p _ => follow h r p
  | .unlink p _ => follow h r p
  | .link p _ _ => follow h r p
  | .fresh p _ _ _ => follow h r p

/-- a path that never goes THROUGH a data reference (never dereferences an array buffer) -/
def cleanPath (p : Path) : Prop := ∀ k ∈ p, k ≠ kData

/-- an action that neither modifies an array buffer nor stores, under a non-data key, something it
    found behind a data reference.  Everything the library does to a grid except an in-place write
    into an array is of this kind. -/
def CleanAct : Act → Prop
  | .write p _ => cleanPath p
  | .unlink p _ => cleanPath p
  | .link p k q => cleanPath p ∧ (k ≠ kData → cleanPath q)
  | .fresh p _ _ kids => cleanPath p ∧ ∀ kq ∈ kids, kq.1 ≠ kData → cleanPath kq.2

/-- cells at or above `n0` refer to cells below `n0` only through data references: the state after a
    shallow adoption (the grid's own Dataset / Variables / attrs above, the caller's arrays below) -/
def DataOnlyLow (n0 : Nat) (h : Heap) : Prop :=
  ∀ a c, n0 ≤ a → h[a]? = some c → ∀ p ∈ c.refs, p.1 ≠ kData → n0 ≤ p.2

/-- along the run, every action modifies a cell at or above `n0` (checked in the heap it acts on) -/
def HighTargets (n0 r : Nat) : Heap → List Act → Prop
  | _, [] => True
  | h, a :: l => (∀ t, actTarget h r a = some t → n0 ≤ t) ∧ HighTargets n0 r (applyAct h r a) l

def highTargetsB (n0 r : Nat) : Heap → List Act → Bool
  | _, [] => true
  | h, a :: l => (match actTarget h r a with | some t => decide (n0 ≤ t) | none => true) && highTargetsB n0 r (applyAct h r a) l

inductive CopyApi | gridCopy | uxdaDeepCopy | pyDeepcopy
deriving DecidableEq, Repr

inductive ExportApi | ugrid | exodus | scrip | gdf | gdfNoCache | poly | line
deriving DecidableEq, Repr

/-- `asIs = true`: the code as it stands; `false`: with `fixes/C19-*.patch` applied.
    `copy.deepcopy(grid)` is Python's own deep copy in both. -/
def copyOp (asIs : Bool) (api : CopyApi) (h : Heap) (g : Nat) : Heap × Nat :=
  match asIs, api with
  | true, .gridCopy => copyGridAsIs h g
  | true, .uxdaDeepCopy => copyGridAsIs h g
  | _, _ => copyGrid h g

/-- variable number the model uses for `grid_topology` -/
def vTopo : Nat := 900

def exportOp (asIs : Bool) (api : ExportApi) (h : Heap) (g : Nat) : Heap × Nat :=
  match api with
  | .ugrid =>
    if asIs then
      match field h g kDs with
      | some ds =>
        match field h ds (kVar vTopo) with
        | some _ => exportShallowAsIs h g
        | none => exportUgridAsIs h g vTopo
      | none => (h, g)
    else exportUgrid h g vTopo
  | .scrip =>
    -- as the code stands `grid_area` wraps the grid's own `face_areas` buffer
    if asIs then exportShallowAsIs h g else
    match field h g kDs with
    | some ds => exportFresh h (dsVarsShallow h ds) (dsAttrsData h ds)
    | none => (h, g)
  | .exodus | .gdfNoCache | .poly =>
    match field h g kDs with
    | some ds => exportFresh h (dsVarsShallow h ds) (dsAttrsData h ds)
    | none => (h, g)
  -- `to_geodataframe`: known finding (a pinned upstream test demands the cached frame itself), the same in both modes
  | .gdf => exportCached h g kGdf [77]
  -- `to_linecollection`: the cached collection today, a deep copy of it once repaired (as `to_polycollection`)
  | .line =>
    if asIs then exportCached h g kLine [78] else
    match field h g kDs with
    | some ds => exportFresh h (dsVarsShallow h ds) (dsAttrsData h ds)
    | none => (h, g)

end UxVerif.Heap
