/-
  UxVerif.Model.Slice — transcription of `uxarray/grid/slice.py`
  (`_slice_face_indices`, `_slice_node_indices`, `_slice_edge_indices`), of the selectors of
  `uxarray/subset/grid_accessor.py`, of the latitude scan
  `uxarray/grid/intersections.py::fast_constant_lat_intersections` +
  `Grid.get_faces_at_constant_latitude`, of `UxDataArray._slice_from_grid`, and the C09
  specification.

  `sliceFaces` is the REPAIRED algorithm (fixes/C09-1-*.patch: `face_edge_connectivity` is
  re-indexed instead of dropped, the source's `inverse_indices` / `fill_value_mask` attributes do
  not travel; fixes/C09-2-*.patch: a materialised `hole_edge_indices` does not travel).  What
  /repo did before is kept as `State.sliceAsIs` together with proved counterexamples in
  `Props/C09.lean`.

  Core Lean only (linked into the driver).
-/
import UxVerif.Model.Basic
import UxVerif.Model.Edges
import UxVerif.Model.Incidence

namespace UxVerif.Slice
open UxVerif

/-! ## 1. index bookkeeping -/

/-- `table[indices].ravel()` -/
def gather (t : Table) (idx : List Nat) : List Int := idx.flatMap (rowAt t)

/-- `u = np.unique(x); u[u != INT_FILL_VALUE]` -/
def sel (l : List Int) : List Int := (uniqInt l).filter (fun x => x != FILL)

/-- lookup in `{key: position for key in s} ∪ {FILL: FILL}` (a missing key would be a
    `KeyError`; `remap_back` shows it never happens on a coherent source) -/
def remap (s : List Int) (x : Int) : Int := if x = FILL then FILL else rank s x

/-- the source index recorded for subgrid index `k` (`subgrid_*_indices[k]`), `FILL ↦ FILL` -/
def back (s : List Int) (k : Int) : Int := if k = FILL then FILL else (getI? s k).getD FILL

def mapPair (g : Int → Int) (p : Int × Int) : Int × Int := (g p.1, g p.2)

/-- row `e` of `edge_node_connectivity` -/
def edgeAt (EN : List (Int × Int)) (e : Int) : Int × Int := (getI? EN e).getD (FILL, FILL)

/-- the tables of the source grid the slicer reads (`face_edge_connectivity` is requested by the
    slicer itself, so the edge tables are always materialised at that point) -/
structure Src where
  t : Table
  EN : List (Int × Int)
  FE : Table
deriving Repr, DecidableEq

/-- the sliced grid: recorded source indices and the re-indexed tables -/
structure SubGrid where
  nodeIdx : List Int
  faceIdx : List Nat
  edgeIdx : List Int
  t : Table
  EN : List (Int × Int)
  FE : Table
deriving Repr, DecidableEq

def nodeSel (s : Src) (idx : List Nat) : List Int := sel (gather s.t idx)
def edgeSel (s : Src) (idx : List Nat) : List Int := sel (gather s.FE idx)

/-- `_slice_face_indices` (repaired): `isel` on the three grid dimensions, `*_node_connectivity`
    re-indexed through the node dictionary, `face_edge_connectivity` through the edge dictionary. -/
def sliceFaces (s : Src) (idx : List Nat) : SubGrid :=
  let ns := nodeSel s idx
  let es := edgeSel s idx
  { nodeIdx := ns, faceIdx := idx, edgeIdx := es,
    t := idx.map (fun f => (rowAt s.t f).map (remap ns)),
    EN := es.map (fun e => mapPair (remap ns) (edgeAt s.EN e)),
    FE := idx.map (fun f => (rowAt s.FE f).map (remap es)) }

/-- `np.unique(node_face_connectivity[indices].ravel())` without `FILL` -/
def facesOfNodes (NF : Table) (ind : List Nat) : List Int := sel (gather NF ind)

def pairRows (EF : List (Int × Int)) : Table := EF.map (fun p => [p.1, p.2])

/-- `np.unique(edge_face_connectivity[indices].ravel())` without `FILL` -/
def facesOfEdges (EF : List (Int × Int)) (ind : List Nat) : List Int := sel (gather (pairRows EF) ind)

def sliceNodes (s : Src) (NF : Table) (ind : List Nat) : SubGrid :=
  sliceFaces s ((facesOfNodes NF ind).map Int.toNat)

def sliceEdges (s : Src) (EF : List (Int × Int)) (ind : List Nat) : SubGrid :=
  sliceFaces s ((facesOfEdges EF ind).map Int.toNat)

/-! ## 2. data slicing (`UxDataArray._slice_from_grid`): `isel` along the grid dimension with the
    recorded indices, any number of leading dimensions -/

/-- `d[..., rec]` for the last axis -/
def iselLast {α} (d : List α) (ri : List Nat) : List (Option α) := ri.map (fun i => d[i]?)

/-- an array of rank `r + 1` whose LAST axis is the grid dimension -/
def NArr (α : Type) : Nat → Type
  | 0 => List α
  | r + 1 => List (NArr α r)

def iselN {α} : (r : Nat) → NArr α r → List Nat → NArr (Option α) r
  | 0, d, ri => iselLast d ri
  | r + 1, d, ri => let l : List (NArr α r) := d; List.map (fun x => iselN r x ri) l

/-- element at leading multi-index `ks` and grid index `i` -/
def atN {α} : (r : Nat) → NArr α r → List Nat → Nat → Option α
  | 0, d, _, i => let l : List α := d; l[i]?
  | r + 1, d, ks, i =>
    let l : List (NArr α r) := d
    match ks with
    | [] => none
    | k :: ks => match l[k]? with
      | none => none
      | some x => atN r x ks i

/-! ## 3. constant-latitude scan -/

section Lat
variable {K : Type} [Sub K] [Mul K] [LT K] [DecidableLT K] [OfNat K 0]

/-- `(z0 - z_constant) * (z1 - z_constant) < 0.0` -/
def crosses (c : K) (z : K × K) : Bool := decide ((z.1 - c) * (z.2 - c) < 0)

/-- body of the `prange` loop for iteration `i` -/
def maskStep (c : K) (Z : List (K × K)) (m : List Bool) (i : Nat) : List Bool :=
  match Z[i]? with
  | some z => if crosses c z then m.set i true else m
  | none => m

/-- the mask after the loop has run its iterations in the order `order` (numba's `prange`
    may run them in any order; every iteration writes only its own cell) -/
def maskLoop (c : K) (Z : List (K × K)) (order : List Nat) : List Bool :=
  order.foldl (maskStep c Z) (List.replicate Z.length false)

/-- `np.unique(np.argwhere(mask))` -/
def maskIdx (m : List Bool) : List Nat := (List.range m.length).filter (fun i => m.getD i false)

def crossingEdges (c : K) (Z : List (K × K)) (order : List Nat) : List Nat :=
  maskIdx (maskLoop c Z order)

/-- `get_faces_at_constant_latitude` -/
def facesAt (c : K) (Z : List (K × K)) (order : List Nat) (EF : List (Int × Int)) : List Int :=
  facesOfEdges EF (crossingEdges c Z order)

end Lat

/-! ## 4. coordinate selectors (`Grid.subset.*`) as predicates on the reference points -/

section Sel
variable {K : Type} [LT K] [LE K] [DecidableLT K] [DecidableLE K]

structure Box (K : Type) where
  lon0 : K
  lon1 : K
  lat0 : K
  lat1 : K
  /-- the literals `-180` and `180` of the antimeridian branch -/
  m180 : K
  p180 : K

/-- longitude test of `bounding_box`: two half-open pieces when `lon0 > lon1` (the box spans
    the antimeridian), the open interval otherwise -/
def inLon (b : Box K) (x : K) : Bool :=
  if b.lon1 < b.lon0 then
    (decide (b.m180 ≤ x) && decide (x < b.lon1)) || (decide (b.lon0 ≤ x) && decide (x < b.p180))
  else decide (b.lon0 < x) && decide (x < b.lon1)

def inLat (b : Box K) (y : K) : Bool := decide (b.lat0 < y) && decide (y < b.lat1)

def inBoxAt (b : Box K) (lon lat : List K) (i : Nat) : Bool :=
  match lon[i]?, lat[i]? with
  | some x, some y => inLon b x && inLat b y
  | _, _ => false

/-- `np.intersect1d(lat_indices, lon_indices)`: ascending, without repetition -/
def boxSel (b : Box K) (lon lat : List K) : List Nat :=
  (List.range lon.length).filter (inBoxAt b lon lat)

/-- elements within distance `r` (`tree.query_radius`; the tree and its metric are C11's) -/
def circleSel (d : List K) (r : K) : List Nat :=
  (List.range d.length).filter (fun i => match d[i]? with | some x => decide (x ≤ r) | none => false)

/-- insertion by distance (ties in no particular order, as with the trees; judged off ties only) -/
def insByDist (x : K × Nat) : List (K × Nat) → List (K × Nat)
  | [] => [x]
  | y :: ys => if y.1 ≤ x.1 then y :: insByDist x ys else x :: y :: ys

def sortByDist (l : List (K × Nat)) : List (K × Nat) := l.foldr insByDist []

/-- the `k` nearest elements (`tree.query(coords, k)`) -/
def knnSel (d : List K) (k : Nat) : List Nat :=
  ((sortByDist (d.zipIdx)).take k).map (·.2)

end Sel

/-! ## 5. Specification (C09), decidable: evaluated by the driver on the implementation's output -/

/-- the implementation's subset, as observed through public attributes -/
structure Obs where
  nodeIdx : List Int
  faceIdx : List Int
  edgeIdx : List Int
  t : Table
  EN : List (Int × Int)
  FE : Table
  N : List Nat
deriving Repr, DecidableEq

def SubGrid.obs (u : SubGrid) : Obs :=
  { nodeIdx := u.nodeIdx, faceIdx := u.faceIdx.map Int.ofNat, edgeIdx := u.edgeIdx,
    t := u.t, EN := u.EN, FE := u.FE, N := Edges.nNodesPerFace u.t }

/-- the recorded face indices are the requested ones, in the requested order -/
def FacesRecorded (idx : List Nat) (o : Obs) : Prop := o.faceIdx = idx.map Int.ofNat

/-- face `i` of the subset has the corners of source face `idx[i]`, same order, same padding,
    when every subset node is read as the source node recorded for it -/
def CornersExact (s : Src) (idx : List Nat) (o : Obs) : Prop :=
  o.t.length = idx.length ∧
  ∀ i, i < idx.length → (rowAt o.t i).map (back o.nodeIdx) = rowAt s.t (idx.getD i 0)

/-- the subset's nodes are exactly the corners of the selected faces, each once -/
def NodesExact (s : Src) (idx : List Nat) (o : Obs) : Prop :=
  o.nodeIdx.Nodup ∧ (∀ v ∈ o.nodeIdx, v ≠ FILL ∧ v ∈ gather s.t idx) ∧
  (∀ v ∈ gather s.t idx, v ≠ FILL → v ∈ o.nodeIdx)

/-- the subset's edges are exactly the edges of the selected faces, each once, with the source's
    end nodes -/
def EdgesRestrict (s : Src) (idx : List Nat) (o : Obs) : Prop :=
  o.edgeIdx.Nodup ∧ (∀ e ∈ o.edgeIdx, e ≠ FILL ∧ e ∈ gather s.FE idx) ∧
  (∀ e ∈ gather s.FE idx, e ≠ FILL → e ∈ o.edgeIdx) ∧
  o.EN.length = o.edgeIdx.length ∧
  ∀ k, k < o.edgeIdx.length →
    sortPair (mapPair (back o.nodeIdx) (o.EN.getD k (FILL, FILL)))
      = sortPair (edgeAt s.EN (o.edgeIdx.getD k FILL))

/-- face `i` of the subset lists the edges source face `idx[i]` lists, slot by slot -/
def FaceEdgesRestrict (s : Src) (idx : List Nat) (o : Obs) : Prop :=
  o.FE.length = idx.length ∧
  ∀ i, i < idx.length → (rowAt o.FE i).map (back o.edgeIdx) = rowAt s.FE (idx.getD i 0)

/-- the restriction clauses -/
def Restrict (s : Src) (idx : List Nat) (o : Obs) : Prop :=
  FacesRecorded idx o ∧ CornersExact s idx o ∧ NodesExact s idx o ∧ EdgesRestrict s idx o ∧
  FaceEdgesRestrict s idx o

/-- the subset is a functional grid: its own edge tables meet C02's specification -/
def Functional (w : Nat) (o : Obs) : Prop := Edges.Spec o.t w ⟨o.EN, o.FE, o.N⟩

def Spec (s : Src) (w : Nat) (idx : List Nat) (o : Obs) : Prop := Restrict s idx o ∧ Functional w o

instance (idx o) : Decidable (FacesRecorded idx o) := by unfold FacesRecorded; infer_instance
instance (s idx o) : Decidable (CornersExact s idx o) := by unfold CornersExact; infer_instance
instance (s idx o) : Decidable (NodesExact s idx o) := by unfold NodesExact; infer_instance
instance (s idx o) : Decidable (EdgesRestrict s idx o) := by unfold EdgesRestrict; infer_instance
instance (s idx o) : Decidable (FaceEdgesRestrict s idx o) := by
  unfold FaceEdgesRestrict; infer_instance
instance (s idx o) : Decidable (Restrict s idx o) := by unfold Restrict; infer_instance
instance (w o) : Decidable (Functional w o) := by unfold Functional; infer_instance
instance (s w idx o) : Decidable (Spec s w idx o) := by unfold Spec; infer_instance

def failing (s : Src) (w : Nat) (idx : List Nat) (o : Obs) : List String :=
  (if FacesRecorded idx o then [] else ["faces_recorded"]) ++
  (if CornersExact s idx o then [] else ["corners_exact"]) ++
  (if NodesExact s idx o then [] else ["nodes_exact"]) ++
  (if EdgesRestrict s idx o then [] else ["edges_restrict"]) ++
  (if FaceEdgesRestrict s idx o then [] else ["face_edges_restrict"]) ++
  (Edges.failing o.t w ⟨o.EN, o.FE, o.N⟩).map (fun c => "functional:" ++ c)

/-- preconditions on the source and the request: standard-form faces, the source's own edge
    tables meet C02's specification, valid duplicate-free face indices -/
def Pre (n w : Nat) (s : Src) (idx : List Nat) : Prop :=
  Edges.StdForm n w s.t ∧ Edges.Spec s.t w ⟨s.EN, s.FE, Edges.nNodesPerFace s.t⟩ ∧
  (∀ f ∈ idx, f < s.t.length) ∧ idx.Nodup

instance (n w s idx) : Decidable (Pre n w s idx) := by unfold Pre; infer_instance

/-- node / edge selections are inclusive: the faces are exactly those listed for a selected
    element, ascending, each once (`rows` = `node_face_connectivity` or the rows of
    `edge_face_connectivity`) -/
def Touching (rows : Table) (ind : List Nat) (faces : List Int) : Prop :=
  faces.Nodup ∧ (∀ f ∈ faces, f ≠ FILL ∧ ∃ v ∈ ind, f ∈ rowAt rows v) ∧
  (∀ v ∈ ind, ∀ f ∈ rowAt rows v, f ≠ FILL → f ∈ faces)

instance (rows ind faces) : Decidable (Touching rows ind faces) := by
  unfold Touching; infer_instance

/-- a face selection by a set of face indices (order free, no repetition) -/
def SameSet (want : List Nat) (got : List Int) : Prop :=
  got.Nodup ∧ (∀ f ∈ want, Int.ofNat f ∈ got) ∧ (∀ g ∈ got, 0 ≤ g ∧ g.toNat ∈ want)

instance (a b) : Decidable (SameSet a b) := by unfold SameSet; infer_instance

/-- data stay attached: `sub[l][i] = src[l][rec[i]]` for every leading index `l` -/
def DataAligned (ri : List Nat) (src sub : List (List Int)) : Prop :=
  sub.length = src.length ∧
  ∀ l, l < src.length →
    (sub.getD l []).map some = iselLast (src.getD l []) ri

instance (a b c) : Decidable (DataAligned a b c) := by unfold DataAligned; infer_instance

/-! ### cross-section with a margin `δ` around the parallel (interpretation choice: end nodes
    closer than `δ` to the parallel are not judged) -/

section LatSpec
variable {K : Type} [Add K] [Sub K] [LT K] [DecidableLT K]

/-- end nodes clearly on opposite sides -/
def clearlyCrosses (c δ : K) (z : K × K) : Bool :=
  (decide (z.1 + δ < c) && decide (c + δ < z.2)) || (decide (z.2 + δ < c) && decide (c + δ < z.1))

/-- end nodes clearly on the same side -/
def clearlySame (c δ : K) (z : K × K) : Bool :=
  (decide (c + δ < z.1) && decide (c + δ < z.2)) || (decide (z.1 + δ < c) && decide (z.2 + δ < c))

/-- the real edges of face `f` (first `N[f]` slots of its `face_edge` row) that are valid -/
def edgesOfFace (FE : Table) (N : List Nat) (f : Nat) : List Nat :=
  ((Incidence.faceEdgesOf FE N f).filter (fun e => decide (0 ≤ e))).map Int.toNat

def faceHas (p : (K × K) → Bool) (Z : List (K × K)) (FE : Table) (N : List Nat) (f : Nat) : Bool :=
  (edgesOfFace FE N f).any (fun e => match Z[e]? with | some z => p z | none => false)

/-- every face with a clearly crossing edge is selected; every selected face has an edge that is
    not clearly on one side; no repetition -/
def CrossSpec (c δ : K) (Z : List (K × K)) (FE : Table) (N : List Nat) (faces : List Int) : Prop :=
  faces.Nodup ∧
  (∀ f, f < FE.length → faceHas (clearlyCrosses c δ) Z FE N f = true → Int.ofNat f ∈ faces) ∧
  (∀ g ∈ faces, 0 ≤ g ∧ g.toNat < FE.length ∧
    faceHas (fun z => !clearlySame c δ z) Z FE N g.toNat = true)

instance (c δ : K) (Z FE N faces) : Decidable (CrossSpec c δ Z FE N faces) := by
  unfold CrossSpec; infer_instance

/-- end nodes strictly on opposite sides of the parallel (the property's own words, no margin) -/
def strictlyOpposite (c : K) (z : K × K) : Bool :=
  (decide (z.1 < c) && decide (c < z.2)) || (decide (z.2 < c) && decide (c < z.1))

/-- the exact clause, judged whenever the query's `z` and the grid's node `z` are the very doubles the
    implementation compares (an end node exactly ON the parallel is on neither side): a face is selected
    iff one of its edges has its end nodes strictly on opposite sides; valid indices, no repetition -/
def CrossExact (c : K) (Z : List (K × K)) (FE : Table) (N : List Nat) (faces : List Int) : Prop :=
  faces.Nodup ∧
  (∀ f, f < FE.length → (faceHas (strictlyOpposite c) Z FE N f = true ↔ Int.ofNat f ∈ faces)) ∧
  (∀ g ∈ faces, 0 ≤ g ∧ g.toNat < FE.length)

instance (c : K) (Z FE N faces) : Decidable (CrossExact c Z FE N faces) := by
  unfold CrossExact; infer_instance

end LatSpec

/-! ## 6. the travelling state: which variables of the source's dataset reach the subset

  `State` is the part of `Grid._ds` that matters here: the face table, and the derived variables
  that may or may not have been materialised (by the user, or by an earlier request).
  `inv` is the `inverse_indices` attribute hanging on `edge_node_connectivity`. -/

/-- how the arrays of a grid's dataset are stored: in memory, or (after `Grid.chunk(...)`) as lazy dask
    arrays.  It is NOT an input of any getter or of the slicer: nothing below reads it. -/
inductive Backing where
  | numpy | dask
deriving Repr, DecidableEq

structure State where
  w : Nat
  t : Table
  backing : Backing := .numpy
  en : Option (List (Int × Int)) := none
  inv : Option (List Int) := none
  fe : Option Table := none
  npf : Option (List Nat) := none
  nf : Option Table := none
  ef : Option (List (Int × Int)) := none
  ff : Option Table := none
  holes : Option (List Nat) := none
  /-- `edge_face_distances`, symbolically: per edge the (sorted) pair of THIS grid's faces whose
      centres the distance was taken between, `none` = 0 (an edge with a single face).  A face index
      `-1` stands for "a face that is not in this grid". -/
  efd : Option (List (Option (Int × Int))) := none
  /-- recorded source indices (only on a subset) -/
  recd : Option (List Int × List Nat × List Int) := none
deriving Repr, DecidableEq

inductive Var where
  | edgeNode | faceEdge | nPerFace | nodeFace | edgeFace | faceFace | holes | edgeFaceDist
  /-- `Grid.chunk(n_node=…, n_edge=…, n_face=…)`: a history operation that changes no value -/
  | chunk
deriving Repr, DecidableEq

/-- number of nodes: one more than the largest entry (`_ds.sizes["n_node"]`; only its being
    large enough matters) -/
def nNodeOf (t : Table) : Nat := (t.flatten.foldl (fun m x => max m (x + 1)) 0).toNat

/-- `v.reshape(-1, w)` -/
def reshape (w : Nat) (v : List Int) : Table :=
  (List.range (v.length / w)).map (fun i => (v.drop (i * w)).take w)

/-- `_populate_edge_node_connectivity`: overwrites `edge_node_connectivity` and its attributes -/
def popEN (g : State) : State :=
  { g with en := some (Edges.edges g.t), inv := some (Edges.faceEdges g.t).flatten }

/-- the getters, as `Grid`'s lazy properties: `none` = the request raises -/
def getEN (g : State) : State := if g.en.isSome then g else popEN g

/-- `_inverse_indices_from_edge_nodes` for one face row: every slot's (sorted) node pair is looked up
    among the sorted rows of the GIVEN edge table (first match); padding slots stay `FILL`; `none` when a
    pair is not listed -/
def lookupRow (E : List (Int × Int)) (r : List Int) : Option (List Int) :=
  (Edges.rowPairs r).mapM (fun p =>
    if Edges.hasFill p then some FILL
    else
      let i := (E.map sortPair).idxOf p
      if i < E.length then some (Int.ofNat i) else none)

/-- the faces' edges looked up in a source-supplied `edge_node_connectivity` (any order of the rows, any
    orientation of a row); `none` when the table does not list every edge of the faces -/
def lookupFE (t : Table) (E : List (Int × Int)) : Option Table := t.mapM (lookupRow E)

/-- reshape `inverse_indices` to `(n_face, n_max_face_nodes)` -/
def finishFE (g : State) : Option State :=
  match g.inv with
  | none => none
  | some v => if v.length = g.t.length * g.w then some { g with fe := some (reshape g.w v) } else none

/-- `_populate_face_edge_connectivity` (as repaired by 54ba6780): an `edge_node_connectivity` that came
    with the source (no `inverse_indices` attribute) is KEPT and every face's edges are looked up in it;
    only when it does not list every edge of the faces, or when there is none, the edges are (re)built. -/
def getFE (g : State) : Option State :=
  if g.fe.isSome then some g else
    match g.en, g.inv with
    | some E, none =>
      match lookupFE g.t E with
      | some F => some { g with fe := some F }
      | none => finishFE (popEN g)
    | some _, some _ => finishFE g
    | none, _ => finishFE (popEN g)

def getNPF (g : State) : State :=
  if g.npf.isSome then g else { g with npf := some (Edges.nNodesPerFace g.t) }

def getNF (g : State) : State :=
  if g.nf.isSome then g else { g with nf := some (Incidence.nodeFace (nNodeOf g.t) g.t) }

def getEF (g : State) : Option State :=
  if g.ef.isSome then some g else do
    let g ← getFE g
    let g := getNPF (getEN g)
    pure { g with ef := some (Incidence.edgeFace (g.fe.getD []) (g.npf.getD []) ((g.en.getD []).length)) }

def getFF (g : State) : Option State :=
  if g.ff.isSome then some g else do
    let g ← getEF g
    pure { g with ff := some (Incidence.faceFace g.t.length g.w (g.ef.getD [])) }

def getHoles (g : State) : Option State :=
  if g.holes.isSome then some g else do
    let g ← getEF g
    pure { g with holes := some (Incidence.holeEdges (g.ef.getD [])) }

/-- `_construct_edge_face_distances`: 0 where the second face is `FILL`, else the arc between the two
    face centres -/
def efdOf (EF : List (Int × Int)) : List (Option (Int × Int)) :=
  EF.map (fun p => if p.2 = FILL then none else some (sortPair p))

def getEFD (g : State) : Option State :=
  if g.efd.isSome then some g else do
    let g ← getEF g
    pure { g with efd := some (efdOf (g.ef.getD [])) }

def request (g : State) : Var → Option State
  | .edgeNode => some (getEN g)
  | .faceEdge => getFE g
  | .nPerFace => some (getNPF g)
  | .nodeFace => some (getNF g)
  | .edgeFace => getEF g
  | .faceFace => getFF g
  | .holes => getHoles g
  | .edgeFaceDist => getEFD g
  | .chunk => some { g with backing := .dask }

/-- a history of requests on a grid (`none` as soon as one raises) -/
def runHist (g : State) : List Var → Option State
  | [] => some g
  | v :: vs => (request g v).bind (fun g => runHist g vs)

/-- the tables the slicer reads -/
def State.src (g : State) : Src := { t := g.t, EN := g.en.getD [], FE := g.fe.getD [] }

/-- the subset's number of a source face, `-1` when the face is not selected -/
def renF (idx : List Nat) (x : Int) : Int :=
  if 0 ≤ x ∧ x.toNat ∈ idx then Int.ofNat (idx.idxOf x.toNat) else -1

def selectedF (idx : List Nat) (x : Int) : Bool := decide (0 ≤ x ∧ x.toNat ∈ idx)

/-- `edge_face_distances` of the source carried to the subset's edges `es` (`isel(n_edge=…)`); with
    `mask` the value survives only when BOTH faces were selected (fixes/C09-3), otherwise it is kept
    as it is (what /repo did) -/
def travelEFD (mask : Bool) (idx : List Nat) (es : List Int) (v : List (Option (Int × Int))) :
    List (Option (Int × Int)) :=
  es.map (fun e =>
    match (getI? v e).join with
    | none => none
    | some p =>
      if mask && !(selectedF idx p.1 && selectedF idx p.2) then none
      else some (sortPair (renF idx p.1, renF idx p.2)))

/-- `_slice_face_indices` on the dataset.  `ds.isel` slices every variable with a grid dimension;
    node-indexing tables are re-indexed, the other connectivity tables are dropped.
    `attrsTravel` : the attributes of `edge_node_connectivity` (with the SOURCE's `inverse_indices`)
    are copied and `face_edge_connectivity` is dropped (what /repo did) instead of being re-indexed;
    `holesTravel` : a materialised `hole_edge_indices` (no grid dimension) passes through `isel`
    untouched (what /repo did) instead of being dropped;
    `efdStale`    : a materialised `edge_face_distances` is sliced like a per-edge invariant (what /repo
    did) although it depends on BOTH faces of the edge, instead of being masked. -/
def State.sliceWith (attrsTravel holesTravel efdStale : Bool) (g : State) (idx : List Nat) :
    Option State := do
  let g ← getFE g
  let g := getEN g
  let u := sliceFaces g.src idx
  pure { w := g.w, t := u.t, backing := g.backing, en := some u.EN,
         inv := if attrsTravel then g.inv else none,
         fe := if attrsTravel then none else some u.FE,
         npf := g.npf.map (fun N => idx.map (fun f => N.getD f 0)),
         nf := none, ef := none, ff := none,
         holes := if holesTravel then g.holes else none,
         efd := g.efd.map (travelEFD (!efdStale) idx u.edgeIdx),
         recd := some (u.nodeIdx, u.faceIdx, u.edgeIdx) }

/-- the repaired slicer (fixes/C09-1, C09-2, C09-3): nothing stale travels -/
def State.slice (g : State) (idx : List Nat) : Option State := g.sliceWith false false false idx

/-- `_slice_face_indices` as it stood in /repo -/
def State.sliceAsIs (g : State) (idx : List Nat) : Option State := g.sliceWith true true true idx

/-- what a request on `g` reports (`none` = raises) -/
structure View where
  en : List (Int × Int)
  fe : Table
  npf : List Nat
  nf : Table
  ef : List (Int × Int)
  ff : Table
  holes : List Nat
deriving Repr, DecidableEq

/-- the user's requests `order`, then every derived variable is requested and read (each value
    is read right after its request, as `getattr(grid, name)` does) -/
def State.view (g : State) (order : List Var) : Option View := do
  let g ← runHist g order
  let g ← request g .edgeNode
  let en := g.en.getD []
  let g ← request g .faceEdge
  let fe := g.fe.getD []
  let g ← request g .nPerFace
  let npf := g.npf.getD []
  let g ← request g .nodeFace
  let nf := g.nf.getD []
  let g ← request g .edgeFace
  let ef := g.ef.getD []
  let g ← request g .faceFace
  let ff := g.ff.getD []
  let g ← request g .holes
  let holes := g.holes.getD []
  pure { en := en, fe := fe, npf := npf, nf := nf, ef := ef, ff := ff, holes := holes }

/-- the user's requests `order`, then `edge_face_distances` is requested and read -/
def State.viewEFD (g : State) (order : List Var) : Option (List (Option (Int × Int))) := do
  let g ← runHist g order
  let g ← request g .edgeFaceDist
  pure (g.efd.getD [])

end UxVerif.Slice
