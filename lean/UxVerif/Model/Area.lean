/-
  UxVerif.Model.Area — transcription of `uxarray/grid/area.py` and of the area part of
  `uxarray/grid/grid.py` (`compute_face_areas`, `face_areas`, `calculate_total_face_area`),
  plus the decidable checkers of the C05 specification.  Import-free (core Lean only).

  §1  quadrature tables (regenerated into `Gen/QuadTables.lean`): integer checkers
  §2  the two Jacobians, the quadrature sums and the fan-of-triangles sum, generic over `K`
      (run at `Float` by the driver, proved at any field / at ℝ in `Props/C05.lean`)
  §3  gathering corners per face, both coordinate inputs, total area
  §4  the `face_areas` cache as a state machine
  §5  exact spherical excess (oracle of the numeric clauses) and the decidable Float spec
-/
import UxVerif.Model.Basic
import UxVerif.Gen.QuadTables

namespace UxVerif.Area
open UxVerif

/-! ## 1. Quadrature tables — integer checkers (every entry is `numerator / D`) -/

abbrev TriRow := Int × Int × Int × Int      -- (dG[p][0], dG[p][1], dG[p][2], dW[p])
abbrev GaussRow := Int × Int                -- (dG[0][p], dW[p])

def TriRow.g0 (r : TriRow) : Int := r.1
def TriRow.g1 (r : TriRow) : Int := r.2.1
def TriRow.g2 (r : TriRow) : Int := r.2.2.1
def TriRow.w (r : TriRow) : Int := r.2.2.2

def fact : Nat → Nat
  | 0 => 1
  | n + 1 => (n + 1) * fact n

/-- `|S / Dp − p / q| ≤ 1 / T`, cross-multiplied (all of `Dp q T` positive). -/
def closeB (S : Int) (Dp p q T : Nat) : Bool :=
  decide ((S * (q : Int) - (p : Int) * (Dp : Int)).natAbs * T ≤ q * Dp)

/-- numerator of `Σ_p w_p · G₀ᵃ G₁ᵇ (1−G₀−G₁)ᶜ` — the third barycentric coordinate is the one the
    CODE evaluates (`1.0 - dA - dB`, area.py:295), not the stored third column; the denominator is
    `D^(a+b+c+1)` -/
def triMoment (D : Nat) (t : List TriRow) (a b c : Nat) : Int :=
  t.foldl (fun s r => s + r.w * r.g0 ^ a * r.g1 ^ b * ((D : Int) - r.g0 - r.g1) ^ c) 0

/-- the monomial `λ₀ᵃ λ₁ᵇ λ₂ᶜ` is integrated to within `1/T`: the code halves the Jacobian, so the
    weights are normalised to `Σ w = 1` and the exact value is `2·a!b!c!/(a+b+c+2)!`. -/
def triMomentOK (D : Nat) (t : List TriRow) (T a b c : Nat) : Bool :=
  closeB (triMoment D t a b c) (D ^ (a + b + c + 1)) (2 * fact a * fact b * fact c)
    (fact (a + b + c + 2)) T

/-- all monomials of total degree `≤ deg` -/
def triExactB (D : Nat) (t : List TriRow) (deg T : Nat) : Bool :=
  (List.range (deg + 1)).all fun a =>
    (List.range (deg + 1 - a)).all fun b =>
      (List.range (deg + 1 - a - b)).all fun c => triMomentOK D t T a b c

/-- some monomial of total degree exactly `deg` is NOT integrated to within `1/T` -/
def triInexactAtB (D : Nat) (t : List TriRow) (deg T : Nat) : Bool :=
  (List.range (deg + 1)).any fun a =>
    (List.range (deg + 1 - a)).any fun b => !triMomentOK D t T a b (deg - a - b)

def triWeightSum (t : List TriRow) : Int := t.foldl (fun s r => s + r.w) 0

/-- `|Σ w − 1| ≤ 1/T` -/
def triWeightsSumB (D : Nat) (t : List TriRow) (T : Nat) : Bool :=
  closeB (triWeightSum t) D 1 1 T

/-- every point is barycentric: `|G₀+G₁+G₂ − 1| ≤ 1/T` -/
def triBaryB (D : Nat) (t : List TriRow) (T : Nat) : Bool :=
  t.all fun r => closeB (r.g0 + r.g1 + r.g2) D 1 1 T

def triWeightsPosB (t : List TriRow) : Bool := t.all fun r => decide (0 < r.w)
def triPointsNonnegB (t : List TriRow) : Bool :=
  t.all fun r => decide (0 ≤ r.g0) && decide (0 ≤ r.g1) && decide (0 ≤ r.g2)

/-- the rule is invariant under every permutation of the barycentric coordinates
    (closed under the two generators: swap of 0,1 and the 3-cycle), with equal weights -/
def triSymmetricB (t : List TriRow) : Bool :=
  t.all fun r =>
    t.contains (r.g1, r.g0, r.g2, r.w) && t.contains (r.g1, r.g2, r.g0, r.w)

def gaussMoment (t : List GaussRow) (d : Nat) : Int :=
  t.foldl (fun s r => s + r.2 * r.1 ^ d) 0

/-- `|Σ w xᵈ − 1/(d+1)| ≤ 1/T` on `[0,1]` -/
def gaussMomentOK (D : Nat) (t : List GaussRow) (T d : Nat) : Bool :=
  closeB (gaussMoment t d) (D ^ (d + 1)) 1 (d + 1) T

def gaussExactB (D : Nat) (t : List GaussRow) (deg T : Nat) : Bool :=
  (List.range (deg + 1)).all fun d => gaussMomentOK D t T d

def gaussWeightsPosB (t : List GaussRow) : Bool := t.all fun r => decide (0 < r.2)
def gaussNodesInUnitB (D : Nat) (t : List GaussRow) : Bool :=
  t.all fun r => decide (0 ≤ r.1) && decide (r.1 ≤ (D : Int))
/-- symmetric about `1/2` (to within `1/T`: the code's scaling `0.5·(x+1)` rounds) with equal weights -/
def gaussSymmetricB (D : Nat) (t : List GaussRow) (T : Nat) : Bool :=
  t.all fun r => t.any fun r' =>
    decide ((r.1 + r'.1 - (D : Int)).natAbs * T ≤ D) && r'.2 == r.2

/-- first monomial of total degree `≤ deg` that is not integrated to within `1/T` (diagnostics) -/
def triFirstBad (D : Nat) (t : List TriRow) (deg T : Nat) : Option (Nat × Nat × Nat) :=
  ((List.range (deg + 1)).flatMap fun a => (List.range (deg + 1 - a)).flatMap fun b =>
    (List.range (deg + 1 - a - b)).map fun c => (a, b, c)).find? fun m => !triMomentOK D t T m.1 m.2.1 m.2.2
def gaussFirstBad (D : Nat) (t : List GaussRow) (deg T : Nat) : Option Nat :=
  (List.range (deg + 1)).find? fun d => !gaussMomentOK D t T d

/-- degree of exactness the property needs of each supported rule:
    triangular rule `o` integrates degree `o`; the `n`-point Gauss rule degree `2n−1`,
    except `n = 9`, which the code implements as a 9-point Lobatto rule (degree `2n−3 = 15`). -/
def triDeg (o : Nat) : Nat := o
def gaussDeg (n : Nat) : Nat := if n = 9 then 15 else 2 * n - 1

/-- **accept / reject decision of every public area entry point** (`compute_face_areas`,
    `calculate_total_face_area`, `UxDataArray.integrate`): rule 0 = "gaussian", 1 = "triangular";
    an order is accepted iff the code has a table for it (the regenerated table keys). -/
def supported (rule order : Nat) : Bool :=
  (rule == 1 && Gen.Quad.TRI_ORDERS.contains order) ||
  (rule == 0 && Gen.Quad.GAUSS_ORDERS.contains order)

/-! ## 2. Geometry, generic over the scalar type -/

structure V3 (K : Type) where
  x : K
  y : K
  z : K
deriving Repr

section generic
variable {K : Type} [Add K] [Sub K] [Mul K] [Div K] [Neg K]
  [OfNat K 0] [OfNat K 1] [OfNat K 2]

/-- common tail of both Jacobian routines (area.py:226–261 and 305–340): project the two
    tangent vectors `A = ∂F/∂a`, `B = ∂F/∂b` onto the sphere at `F/|F|` and take the norm of
    their cross product. -/
def jacCore (sqrt : K → K) (F A B : V3 K) : K :=
  let invR := 1 / sqrt (F.x * F.x + F.y * F.y + F.z * F.z)
  let gax := A.x * (F.y * F.y + F.z * F.z) - F.x * (A.y * F.y + A.z * F.z)
  let gay := A.y * (F.x * F.x + F.z * F.z) - F.y * (A.x * F.x + A.z * F.z)
  let gaz := A.z * (F.x * F.x + F.y * F.y) - F.z * (A.x * F.x + A.y * F.y)
  let gbx := B.x * (F.y * F.y + F.z * F.z) - F.x * (B.y * F.y + B.z * F.z)
  let gby := B.y * (F.x * F.x + F.z * F.z) - F.y * (B.x * F.x + B.z * F.z)
  let gbz := B.z * (F.x * F.x + F.y * F.y) - F.z * (B.x * F.x + B.y * F.y)
  let den := invR * invR * invR
  let ax := gax * den
  let ay := gay * den
  let az := gaz * den
  let bx := gbx * den
  let bY := gby * den
  let bz := gbz * den
  let cx := ay * bz - az * bY
  let cy := az * bx - ax * bz
  let cz := ax * bY - ay * bx
  sqrt (cx * cx + cy * cy + cz * cz)

/-- `calculate_spherical_triangle_jacobian` (collapsed-square coordinates, Gauss rules) -/
def jacGauss (sqrt : K → K) (n1 n2 n3 : V3 K) (dA dB : K) : K :=
  let F : V3 K :=
    ⟨(1 - dB) * ((1 - dA) * n1.x + dA * n2.x) + dB * n3.x,
     (1 - dB) * ((1 - dA) * n1.y + dA * n2.y) + dB * n3.y,
     (1 - dB) * ((1 - dA) * n1.z + dA * n2.z) + dB * n3.z⟩
  let A : V3 K :=
    ⟨(1 - dB) * (n2.x - n1.x), (1 - dB) * (n2.y - n1.y), (1 - dB) * (n2.z - n1.z)⟩
  let B : V3 K :=
    ⟨(-(1 - dA)) * n1.x - dA * n2.x + n3.x,
     (-(1 - dA)) * n1.y - dA * n2.y + n3.y,
     (-(1 - dA)) * n1.z - dA * n2.z + n3.z⟩
  jacCore sqrt F A B

/-- `calculate_spherical_triangle_jacobian_barycentric` (returns `0.5 * dJacobian`) -/
def jacBary (sqrt : K → K) (n1 n2 n3 : V3 K) (dA dB : K) : K :=
  let F : V3 K :=
    ⟨dA * n1.x + dB * n2.x + (1 - dA - dB) * n3.x,
     dA * n1.y + dB * n2.y + (1 - dA - dB) * n3.y,
     dA * n1.z + dB * n2.z + (1 - dA - dB) * n3.z⟩
  let A : V3 K := ⟨n1.x - n3.x, n1.y - n3.y, n1.z - n3.z⟩
  let B : V3 K := ⟨n2.x - n3.x, n2.y - n3.y, n2.z - n3.z⟩
  jacCore sqrt F A B / 2

/-- a quadrature table with entries in `K` -/
inductive Quad (K : Type) where
  | tri (rows : List (K × K × K × K))     -- `(dG[p][0], dG[p][1], dG[p][2], dW[p])`
  | gauss (rows : List (K × K))           -- `(dG[0][p], dW[p])`

/-- the addends `area += …` of one sub-triangle, in the order the code adds them -/
def terms (sqrt : K → K) (q : Quad K) (n1 n2 n3 : V3 K) : List K :=
  match q with
  | .tri rows => rows.map fun r => r.2.2.2 * jacBary sqrt n1 n2 n3 r.1 r.2.1
  | .gauss rows =>
    rows.flatMap fun p => rows.map fun q => p.2 * q.2 * jacGauss sqrt n1 n2 n3 p.1 q.1

/-- `acc + t₀ + t₁ + …` left to right, as the accumulator `area` -/
def sumFrom (acc : K) (l : List K) : K := l.foldl (· + ·) acc
def sumL (l : List K) : K := sumFrom 0 l

/-- the sub-triangles `(c₀, c_{j+1}, c_{j+2})`, `j = 0 … n−3`, of a corner list -/
def fanTris {α : Type} : List α → List (α × α × α)
  | [] => []
  | a :: rest => (rest.zip rest.tail).map fun bc => (a, bc.1, bc.2)

/-- the fan sum of an arbitrary triangle functional -/
def fan {α : Type} (T : α → α → α → K) (l : List α) : K :=
  sumL ((fanTris l).map fun t => T t.1 t.2.1 t.2.2)

/-- quadrature of one sub-triangle -/
def triQuad (sqrt : K → K) (q : Quad K) (n1 n2 n3 : V3 K) : K := sumL (terms sqrt q n1 n2 n3)

/-- `calculate_face_area` on Cartesian corners: ONE accumulator over all sub-triangles and
    all quadrature points. -/
def faceArea (sqrt : K → K) (q : Quad K) (corners : List (V3 K)) : K :=
  sumL ((fanTris corners).flatMap fun t => terms sqrt q t.1 t.2.1 t.2.2)

/-- `_lonlat_rad_to_xyz(np.deg2rad(lon), np.deg2rad(lat))`; `d2r = π/180` -/
def xyzOfLonLatDeg (sin cos : K → K) (d2r : K) (ll : K × K) : V3 K :=
  let lo := ll.1 * d2r
  let la := ll.2 * d2r
  ⟨cos lo * cos la, sin lo * cos la, sin la⟩

/-- `calculate_face_area(…, coords_type="spherical")`: every corner is converted first -/
def faceAreaSph (sqrt sin cos : K → K) (d2r : K) (q : Quad K) (lonlat : List (K × K)) : K :=
  faceArea sqrt q (lonlat.map (xyzOfLonLatDeg sin cos d2r))

/-! ## 3. All faces of a grid -/

/-- `get_all_face_area_from_coords`: face `f` uses `coord[face_nodes[f, 0:n_nodes_per_face[f]]]` -/
def allAreas {P : Type} (area : List P → K) (coord : Int → P) (t : Table) (N : List Nat) :
    List K :=
  (t.zip N).map fun rn => area ((rn.1.take rn.2).map coord)

/-- the `dim` switch of `get_all_face_area_from_coords`: `face_z = face_x * 0.0` unless `dim > 2` -/
def cartCorner (dim : Nat) (p : V3 K) : V3 K :=
  if dim > 2 then p else ⟨p.x, p.y, p.x * 0⟩

/-- `Grid.compute_face_areas(rule, order, latlon=True)` -/
def computeLatLon (sqrt sin cos : K → K) (d2r : K) (q : Quad K) (lonlat : Int → K × K)
    (t : Table) (N : List Nat) : List K :=
  allAreas (faceAreaSph sqrt sin cos d2r q) lonlat t N

/-- `Grid.compute_face_areas(rule, order, latlon=False)` with the `dim` it passes down.
    REPAIRED code: `dim = 3`.  Code as it stands: `dim = 2` (see `Props/C05.lean`,
    `asis_cartesian_area_zero`). -/
def computeXYZ (dim : Nat) (sqrt : K → K) (q : Quad K) (xyz : Int → V3 K)
    (t : Table) (N : List Nat) : List K :=
  allAreas (fun cs => faceArea sqrt q (cs.map (cartCorner dim))) xyz t N

/-- `calculate_total_face_area` -/
def totalArea (areas : List K) : K := sumL areas

end generic

/-! ## 4. The `face_areas` cache -/

/-- `(rule, order, latlon)`; rule 0 = "gaussian", 1 = "triangular" -/
abbrev Params := Nat × Nat × Bool

inductive Op where
  | read                                      -- `grid.face_areas`
  | compute (p : Params)                      -- `grid.compute_face_areas(rule, order, latlon)`
  | computeDefault                            -- `grid.compute_face_areas()`
  | total (rule order : Nat)                  -- `grid.calculate_total_face_area(rule, order)`
  | totalDefault                              -- `grid.calculate_total_face_area()`
deriving Repr

structure St (A : Type) where
  ds : Option A          -- `_ds["face_areas"]`
  last : Option A        -- `_face_areas` (last computed; never read back by `face_areas`)

/-- what an operation returns: the parameter combination whose fresh areas it reports
    (`.total` reports their sum) -/
def step {A : Type} (fresh : Params → A) (dflt tdflt : Params) (s : St A) : Op → St A × A
  | .read =>
    match s.ds with
    | some a => (s, a)
    | none => let a := fresh dflt; ({ ds := some a, last := some a }, a)
  | .compute p => let a := fresh p; ({ s with last := some a }, a)
  | .computeDefault => let a := fresh dflt; ({ s with last := some a }, a)
  | .total r o => let a := fresh (r, o, true); ({ s with last := some a }, a)
  | .totalDefault => let a := fresh tdflt; ({ s with last := some a }, a)

def runOps {A : Type} (fresh : Params → A) (dflt tdflt : Params) :
    St A → List Op → List A
  | _, [] => []
  | s, op :: ops =>
    let r := step fresh dflt tdflt s op
    r.2 :: runOps fresh dflt tdflt r.1 ops

/-! ## 5. Oracle of the numeric clauses and the decidable spec (Float) -/

section oracle
variable {K : Type} [Add K] [Sub K] [Mul K] [OfNat K 1] [OfNat K 2]

def dot (a b : V3 K) : K := a.x * b.x + a.y * b.y + a.z * b.z
def vsub (a b : V3 K) : V3 K := ⟨a.x - b.x, a.y - b.y, a.z - b.z⟩
def cross (a b : V3 K) : V3 K :=
  ⟨a.y * b.z - a.z * b.y, a.z * b.x - a.x * b.z, a.x * b.y - a.y * b.x⟩
/-- `a · (b × c)`, evaluated as `a · ((b−a) × (c−a))` (no cancellation for small triangles) -/
def det3 (a b c : V3 K) : K := dot a (cross (vsub b a) (vsub c a))

/-- area of the spherical triangle `abc` (Van Oosterom–Strackee) -/
def triExcess (atan2 : K → K → K) (abs : K → K) (a b c : V3 K) : K :=
  2 * atan2 (abs (det3 a b c)) (1 + dot a b + dot b c + dot c a)
end oracle

/-- exact area of a convex spherical polygon: excesses of the fan from corner 0 -/
def polyExcess (l : List (V3 Float)) : Float :=
  fan (triExcess Float.atan2 Float.abs) l

/-- cyclic triples `(cᵢ, cᵢ₊₁, c_k)`, `k ≠ i, i+1` have determinants of one strict sign -/
def convexB (l : List (V3 Float)) : Bool :=
  let n := l.length
  let d (i k : Nat) : Float :=
    match l[i]?, l[(i + 1) % n]?, l[k]? with
    | some a, some b, some c => dot a (cross b c)
    | _, _, _ => 0
  let ds := (List.range n).flatMap fun i =>
    ((List.range n).filter fun k => k != i && k != (i + 1) % n).map fun k => d i k
  ds.all (· > 0) || ds.all (· < 0)

/-- the face is inside the property's quantifier: 3..8 corners on the unit sphere, strictly
    convex, every edge shorter than 90°, inside the cap `centre · v ≥ cosHalf` -/
def wfFace (centre : V3 Float) (cosHalf : Float) (l : List (V3 Float)) : Bool :=
  decide (3 ≤ l.length) && decide (l.length ≤ 8) &&
  l.all (fun v => Float.abs (dot v v - 1) ≤ 1e-12) &&
  l.all (fun v => dot centre v ≥ cosHalf - 1e-12) &&
  convexB l &&
  (l.zip (l.tail ++ l.take 1)).all (fun p => dot p.1 p.2 > 0)

/-- `|a − e| ≤ tol · |e|` -/
def relClose (tol a e : Float) : Bool := Float.abs (a - e) ≤ tol * Float.abs e

/-- accuracy the property promises for the DEFAULT rule on a face of the given class:
    0: ≤ 10° across, 1: ≤ 30°, 2: ≤ 65° -/
def thrOfClass : Nat → Float
  | 0 => 1e-6
  | 1 => 1e-4
  | _ => 1e-2

/-- half-angle cosine of the cap of class `c` -/
def cosHalfOfClass : Nat → Float
  | 0 => Float.cos (5 * 3.141592653589793 / 180)
  | 1 => Float.cos (15 * 3.141592653589793 / 180)
  | _ => Float.cos (32.5 * 3.141592653589793 / 180)

/-- clauses of the spec violated by a reported area of one face
    (`dflt`: the area was computed with the default rule, so the accuracy clause applies) -/
def faceSpec (cls : Nat) (dflt : Bool) (area : Float) (l : List (V3 Float)) : List String :=
  (if area ≥ 0 then [] else ["nonneg"]) ++
  (if !dflt || relClose (thrOfClass cls) area (polyExcess l) then [] else ["accuracy"])

end UxVerif.Area
