/-
  UxVerif.Model.Aggregate — transcription of `uxarray/core/aggregation.py`
  (`_apply_node_to_face_aggregation_numpy`, `_apply_node_to_edge_aggregation_numpy`, the dispatch
  of `_uxda_grid_aggregate`) and of `connectivity.get_face_node_partitions`, with the C17 spec.

  The reduction `red : List α → β` (np.mean, np.min, …) and the node data `data : Int → α`
  are parameters: the structural theorems hold for every reduction.  The ten reductions the code
  offers are ALSO given explicitly, exactly, over ℚ (`Red`, `core`), with the float clause of the
  spec (`accepts`, `judgeRows`) the driver decides on the implementation's outputs.
-/
import UxVerif.Model.Incidence

namespace UxVerif.Aggregate
open UxVerif UxVerif.Incidence

/-- `perm[a:b]` -/
def slice (perm : List Nat) (a b : Nat) : List Nat := (perm.drop a).take (b - a)

/-- output of `get_face_node_partitions`: `change_ind`, the sorting permutation, the element
    sizes (the counts are implicit in `change`) -/
structure Parts where
  change : List Nat
  perm : List Nat
  sizes : List Nat
deriving Repr, DecidableEq

/-- `face_node_conn[f, 0:e]` -/
def gather (t : Table) (f e : Nat) : List Int := (rowAt t f).take e

/-- the scatter writes of the partition loop, in program order:
    `result[..., face_inds] = red(data[..., conn[face_inds, 0:e]])` for each partition -/
def writes {α β : Type} (red : List α → β) (data : Int → α) (t : Table) (p : Parts) :
    List (Nat × β) :=
  (List.range p.sizes.length).flatMap (fun k =>
    let e := p.sizes.getD k 0
    (slice p.perm (p.change.getD k 0) (p.change.getD (k + 1) 0)).map
      (fun f => (f, red ((gather t f e).map data))))

/-- `result = np.empty(n_face)` then the scatter writes; `none` = never written -/
def aggFace {α β : Type} (red : List α → β) (data : Int → α) (t : Table) (p : Parts) :
    List (Option β) :=
  keyedFold (fun _ v => some v) (List.replicate t.length none) (writes red data t p)

/-- node → edge: `red(data[..., edge_node_conn], axis=-1)` -/
def aggEdge {α β : Type} (red : List α → β) (data : Int → α) (E : List (Int × Int)) : List β :=
  E.map (fun e => red [data e.1, data e.2])

/-- what the property demands of a node→face aggregation: per face, the reduction over exactly
    that face's `N[f]` corner nodes -/
def faceRef {α β : Type} (red : List α → β) (data : Int → α) (t : Table) (N : List Nat) :
    List (Option β) :=
  (List.range t.length).map (fun f => some (red ((gather t f (N.getD f 0)).map data)))

/-- the partition data groups faces by size: every face of slice `k` has `sizes[k]` corners,
    and every face lies in some slice -/
def PartsOK (nFace : Nat) (N : List Nat) (p : Parts) : Prop :=
  (∀ k, k < p.sizes.length →
     ∀ f ∈ slice p.perm (p.change.getD k 0) (p.change.getD (k + 1) 0),
       f < nFace ∧ N.getD f 0 = p.sizes.getD k 0) ∧
  (∀ f, f < nFace → ∃ k ∈ List.range p.sizes.length,
     f ∈ slice p.perm (p.change.getD k 0) (p.change.getD (k + 1) 0))

instance (nFace N p) : Decidable (PartsOK nFace N p) := by unfold PartsOK; infer_instance

/-! ### `get_face_node_partitions` -/

/-- unique values ascending (`np.unique`) -/
def uniqNat (l : List Nat) : List Nat := (uniqInt (l.map Int.ofNat)).map Int.toNat

/-- `np.cumsum(size_counts)` prefixed by 0 -/
def changeOf (N : List Nat) (sizes : List Nat) : List Nat :=
  sizes.foldl (fun acc e => acc ++ [acc.getLastD 0 + N.count e]) [0]

/-- the partitions for ANY permutation `perm` (what `np.argsort` returns up to tie-breaking) -/
def partsOf (N : List Nat) (perm : List Nat) : Parts :=
  let sizes := uniqNat N
  { change := changeOf N sizes, perm := perm, sizes := sizes }

/-- `perm` sorts `N` ascending and is a permutation of the face numbers -/
def SortsBy (N : List Nat) (perm : List Nat) : Prop :=
  perm.length = N.length ∧ (∀ f, f < N.length → f ∈ perm) ∧
  (perm.map (fun f => N.getD f 0)).Pairwise (· ≤ ·)

instance (N perm) : Decidable (SortsBy N perm) := by unfold SortsBy; infer_instance

/-! ### dispatch of `_uxda_grid_aggregate` by the data's element dimension -/
inductive Centre | node | edge | face | other deriving Repr, DecidableEq
inductive Dest | node | edge | face | none | bad deriving Repr, DecidableEq
inductive Outcome | toFace | toEdge | valueError | notImplemented deriving Repr, DecidableEq

def dispatch (c : Centre) (d : Dest) : Outcome :=
  match d with
  | .none => .valueError
  | _ =>
    match c with
    | .node => match d with
      | .face => .toFace
      | .edge => .toEdge
      | _ => .valueError
    | .edge => .notImplemented
    | .face => .notImplemented
    | .other => .valueError

/-! ### the ten reductions of `NUMPY_AGGREGATIONS`, exactly, over ℚ

Every finite float64 / int64 / bool is a rational, so the value a reduction SHOULD return on a
gathered row is a rational that Lean computes exactly (`std`: its square).  `none` is where
NumPy itself returns nan/inf or raises (empty row for mean/min/max/median, `n ≤ ddof`). -/

inductive Red | mean | max | min | prod | sum | std | var | median | all | any
deriving Repr, DecidableEq

def qsum (l : List Rat) : Rat := l.foldr (· + ·) 0
def qprod (l : List Rat) : Rat := l.foldr (· * ·) 1
def qmin2 (a b : Rat) : Rat := if a ≤ b then a else b
def qmax2 (a b : Rat) : Rat := if a ≤ b then b else a
def qabs (a : Rat) : Rat := if 0 ≤ a then a else -a

/-- `np.min` along the row -/
def qmin : List Rat → Option Rat
  | [] => none
  | x :: xs => some (xs.foldl qmin2 x)

/-- `np.max` along the row -/
def qmax : List Rat → Option Rat
  | [] => none
  | x :: xs => some (xs.foldl qmax2 x)

def insertQ (a : Rat) : List Rat → List Rat
  | [] => [a]
  | b :: l => if a ≤ b then a :: b :: l else b :: insertQ a l

/-- the row in ascending order (what `np.median` partitions for) -/
def sortQ : List Rat → List Rat
  | [] => []
  | a :: l => insertQ a (sortQ l)

/-- `np.median`: the middle element of the sorted row, or the mean of the two middle ones -/
def qmedian (l : List Rat) : Option Rat :=
  let s := sortQ l
  let n := s.length
  if n = 0 then none
  else if n % 2 = 1 then s[n / 2]?
  else match s[n / 2 - 1]?, s[n / 2]? with
    | some a, some b => some ((a + b) / 2)
    | _, _ => none

/-- `np.mean` -/
def qmean (l : List Rat) : Option Rat :=
  if l.length = 0 then none else some (qsum l / (l.length : Rat))

/-- `np.var(ddof=d)`: mean of squared deviations with divisor `n - d` -/
def qvar (ddof : Nat) (l : List Rat) : Option Rat :=
  if l.length ≤ ddof then none
  else
    let m := qsum l / (l.length : Rat)
    some (qsum (l.map (fun x => (x - m) * (x - m))) / ((l.length - ddof : Nat) : Rat))

def ofBool (b : Bool) : Rat := if b then 1 else 0

/-- exact value of the reduction on a row; for `std` the value of its SQUARE (the variance) -/
def core (op : Red) (ddof : Nat) (row : List Rat) : Option Rat :=
  match op with
  | .mean => qmean row
  | .max => qmax row
  | .min => qmin row
  | .prod => some (qprod row)
  | .sum => some (qsum row)
  | .std => qvar ddof row
  | .var => qvar ddof row
  | .median => qmedian row
  | .all => some (ofBool (row.all (fun x => decide (x ≠ 0))))
  | .any => some (ofBool (row.any (fun x => decide (x ≠ 0))))

/-- `y` IS the reduction of the row (exact arithmetic) -/
def IsValue (op : Red) (ddof : Nat) (row : List Rat) (y : Rat) : Prop :=
  match op with
  | .std => 0 ≤ y ∧ core .std ddof row = some (y * y)
  | _ => core op ddof row = some y

instance (op ddof row y) : Decidable (IsValue op ddof row y) := by
  unfold IsValue; cases op <;> infer_instance

/-- `2⁻⁵²` (float64 machine epsilon) -/
def eps : Rat := 1 / 4503599627370496

/-- `Σ |xᵢ|` -/
def absSum (row : List Rat) : Rat := qsum (row.map qabs)

/-- rounding allowance for a float64 evaluation of the reduction on a row of `n` values, from
    the standard forward bounds (`|fl(Σx) − Σx| ≤ γₙ Σ|x|` etc.), with room to spare; exact
    operations (min, max, all, any) get none -/
def tol (op : Red) (ddof : Nat) (row : List Rat) : Rat :=
  let n : Rat := (row.length : Rat)
  let A := absSum row
  match op with
  | .sum => n * eps * A
  | .mean => (n + 2) * eps * A / n
  | .prod => n * eps * qabs (qprod row)
  | .median => 2 * eps * A
  | .var | .std => 16 * (n + 2) * (n + 2) * eps * A * A / ((row.length - ddof : Nat) : Rat)
  | _ => 0

/-- the float clause of the spec, decided exactly: the implementation's float64 output `y`
    (an exact rational) is within the rounding allowance of the exact reduction of the row -/
def accepts (op : Red) (ddof : Nat) (row : List Rat) (y : Rat) : Bool :=
  match core op ddof row with
  | none => false
  | some v =>
    match op with
    | .std => decide (0 ≤ y) && decide (qabs (y * y - v) ≤ 2 * tol op ddof row + 4 * eps * v)
    | _ => decide (qabs (y - v) ≤ tol op ddof row)

/-- verdict on a whole result vector against the rows each element must reduce over;
    `none` in `out` = a non-finite output -/
def judgeRows (op : Red) (ddof : Nat) (rows : List (List Rat)) (out : List (Option Rat)) : Bool :=
  decide (rows.length = out.length) &&
    (rows.zip out).all (fun ry => match ry.2 with
      | some y => accepts op ddof ry.1 y
      | none => false)

/-- the rows the property prescribes for node→face: the values on the real corners of each face -/
def cornerRows (data : Int → Rat) (t : Table) : List (List Rat) :=
  t.map (fun r => (faceOf r).map data)

/-- the rows the partition loop actually gathers (`red = id`), `none` = face never written -/
def loopRows (data : Int → Rat) (t : Table) (p : Parts) : List (Option (List Rat)) :=
  aggFace (fun row => row) data t p

/-- the two end values of each edge -/
def edgeRows (data : Int → Rat) (E : List (Int × Int)) : List (List Rat) :=
  aggEdge (fun row => row) data E

/-- sub-grid of a face selection: the selected parent rows with the nodes renumbered -/
def subTable (t : Table) (idx : List Nat) (ren : Int → Int) : Table :=
  idx.map (fun f => (rowAt t f).map ren)

end UxVerif.Aggregate
