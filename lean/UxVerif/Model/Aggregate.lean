/-
  UxVerif.Model.Aggregate — transcription of `uxarray/core/aggregation.py`
  (`_apply_node_to_face_aggregation_numpy`, `_apply_node_to_edge_aggregation_numpy`, the dispatch
  of `_uxda_grid_aggregate`) and of `connectivity.get_face_node_partitions`, with the C17 spec.

  The reduction `red : List α → β` (np.mean, np.min, …) and the node data `data : Int → α`
  are parameters: the theorems hold for every reduction.
-/
import UxVerif.Model.Incidence

namespace UxVerif.Aggregate
open UxVerif UxVerif.Incidence

/-- `perm[a:b]` -/
def slice (perm : List Nat) (a b : Nat) : List Nat := (perm.drop a).take (b - a)

/-- output of `get_face_node_partitions`: `change_ind`, the sorting permutation, the element
    sizes (the counts are implicit in `change`) -/
structure Parts where
  change : List Nat
  perm : List Nat
  sizes : List Nat
deriving Repr, DecidableEq

/-- `face_node_conn[f, 0:e]` -/
def gather (t : Table) (f e : Nat) : List Int := (rowAt t f).take e

/-- the scatter writes of the partition loop, in program order:
    `result[..., face_inds] = red(data[..., conn[face_inds, 0:e]])` for each partition -/
def writes {α β : Type} (red : List α → β) (data : Int → α) (t : Table) (p : Parts) :
    List (Nat × β) :=
  (List.range p.sizes.length).flatMap (fun k =>
    let e := p.sizes.getD k 0
    (slice p.perm (p.change.getD k 0) (p.change.getD (k + 1) 0)).map
      (fun f => (f, red ((gather t f e).map data))))

/-- `result = np.empty(n_face)` then the scatter writes; `none` = never written -/
def aggFace {α β : Type} (red : List α → β) (data : Int → α) (t : Table) (p : Parts) :
    List (Option β) :=
  keyedFold (fun _ v => some v) (List.replicate t.length none) (writes red data t p)

/-- node → edge: `red(data[..., edge_node_conn], axis=-1)` -/
def aggEdge {α β : Type} (red : List α → β) (data : Int → α) (E : List (Int × Int)) : List β :=
  E.map (fun e => red [data e.1, data e.2])

/-- what the property demands of a node→face aggregation: per face, the reduction over exactly
    that face's `N[f]` corner nodes -/
def faceRef {α β : Type} (red : List α → β) (data : Int → α) (t : Table) (N : List Nat) :
    List (Option β) :=
  (List.range t.length).map (fun f => some (red ((gather t f (N.getD f 0)).map data)))

/-- the partition data groups faces by size: every face of slice `k` has `sizes[k]` corners,
    and every face lies in some slice -/
def PartsOK (nFace : Nat) (N : List Nat) (p : Parts) : Prop :=
  (∀ k, k < p.sizes.length →
     ∀ f ∈ slice p.perm (p.change.getD k 0) (p.change.getD (k + 1) 0),
       f < nFace ∧ N.getD f 0 = p.sizes.getD k 0) ∧
  (∀ f, f < nFace → ∃ k ∈ List.range p.sizes.length,
     f ∈ slice p.perm (p.change.getD k 0) (p.change.getD (k + 1) 0))

instance (nFace N p) : Decidable (PartsOK nFace N p) := by unfold PartsOK; infer_instance

/-! ### `get_face_node_partitions` -/

/-- unique values ascending (`np.unique`) -/
def uniqNat (l : List Nat) : List Nat := (uniqInt (l.map Int.ofNat)).map Int.toNat

/-- `np.cumsum(size_counts)` prefixed by 0 -/
def changeOf (N : List Nat) (sizes : List Nat) : List Nat :=
  sizes.foldl (fun acc e => acc ++ [acc.getLastD 0 + N.count e]) [0]

/-- the partitions for ANY permutation `perm` (what `np.argsort` returns up to tie-breaking) -/
def partsOf (N : List Nat) (perm : List Nat) : Parts :=
  let sizes := uniqNat N
  { change := changeOf N sizes, perm := perm, sizes := sizes }

/-- `perm` sorts `N` ascending and is a permutation of the face numbers -/
def SortsBy (N : List Nat) (perm : List Nat) : Prop :=
  perm.length = N.length ∧ (∀ f, f < N.length → f ∈ perm) ∧
  (perm.map (fun f => N.getD f 0)).Pairwise (· ≤ ·)

instance (N perm) : Decidable (SortsBy N perm) := by unfold SortsBy; infer_instance

/-! ### dispatch of `_uxda_grid_aggregate` by the data's element dimension -/
inductive Centre | node | edge | face | other deriving Repr, DecidableEq
inductive Dest | node | edge | face | none | bad deriving Repr, DecidableEq
inductive Outcome | toFace | toEdge | valueError | notImplemented deriving Repr, DecidableEq

def dispatch (c : Centre) (d : Dest) : Outcome :=
  match d with
  | .none => .valueError
  | _ =>
    match c with
    | .node => match d with
      | .face => .toFace
      | .edge => .toEdge
      | _ => .valueError
    | .edge => .notImplemented
    | .face => .notImplemented
    | .other => .valueError

end UxVerif.Aggregate
