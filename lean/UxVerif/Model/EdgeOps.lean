/-
  UxVerif.Model.EdgeOps — C16: edge distances, differences and gradients.

  Transcription of
    * `grid/neighbors.py::_construct_edge_node_distances / _construct_edge_face_distances`
      (spherical law of cosines, degrees → radians, `arccos`),
    * `core/gradient.py::_calculate_edge_face_difference / _calculate_edge_node_difference /
      _calculate_grad_on_edge_from_faces`,
    * the wrappers `UxDataArray.difference / gradient` (dimension bookkeeping and dispatch),
    * `io/_mpas.py::_parse_edge_node_distances / _parse_edge_face_distances` (source-supplied
      `dvEdge` / `dcEdge`).

  **Indices are typed**: a `NodeIx` can only index a `NodeArr`, a `FaceIx` only a `FaceArr`.
  The repaired algorithms type-check without any cast; what the unrepaired code does
  (`node_lon[edge_faces[:, 0]]`) needs the explicit reinterpretation `FaceIx.asNode`, so the
  mix-up is visible in the transcription itself (`edgeFaceDistAsIs`).

  Everything is generic over the scalar type `K` and over the transcendental functions
  (`Trig K`, `sqrt`, `abs`, `atan2`), so that the same definitions run at `Float` in the driver
  and are reasoned about at `ℝ` / an arbitrary ordered field in `Props/C16.lean`.
  Core Lean only.
-/
import UxVerif.Model.Basic

namespace UxVerif.EdgeOps

/-! ### typed indices and arrays -/

structure NodeIx where
  n : Nat
deriving DecidableEq, Repr

structure FaceIx where
  n : Nat
deriving DecidableEq, Repr

/-- an array with one entry per node (total lookup: range checks are the decidable
    predicate `TablesWF` evaluated by the driver before anything is read) -/
abbrev NodeArr (K : Type) := NodeIx → K
/-- an array with one entry per face -/
abbrev FaceArr (K : Type) := FaceIx → K

/-- `edge_node_connectivity`: both ends of every edge -/
abbrev EdgeNodes := List (NodeIx × NodeIx)
/-- `edge_face_connectivity`: the second face is `none` where the table holds `INT_FILL_VALUE`
    (boundary edge) -/
abbrev EdgeFaces := List (FaceIx × Option FaceIx)

/-- what the unrepaired `_populate_edge_face_distances` does implicitly: a face number used as a
    node number -/
def FaceIx.asNode (f : FaceIx) : NodeIx := ⟨f.n⟩

/-- every index of the tables is in range for its OWN kind of array -/
def TablesWF (nNode nFace : Nat) (en : EdgeNodes) (ef : EdgeFaces) : Prop :=
  (∀ p ∈ en, p.1.n < nNode ∧ p.2.n < nNode) ∧
  (∀ p ∈ ef, p.1.n < nFace ∧ ∀ g, p.2 = some g → g.n < nFace)

instance (nNode nFace en ef) : Decidable (TablesWF nNode nFace en ef) := by
  unfold TablesWF; infer_instance

/-! ### great-circle distance -/

/-- the transcendental functions the code calls (`np.sin`, `np.cos`, `np.arccos`, `np.deg2rad`) -/
structure Trig (K : Type) where
  sin : K → K
  cos : K → K
  acos : K → K
  deg2rad : K → K

structure V3 (K : Type) where
  x : K
  y : K
  z : K

section generic
variable {K : Type} [Add K] [Sub K] [Mul K] [Div K] [OfNat K 0]

/-- `sin φ₁ sin φ₂ + cos φ₁ cos φ₂ cos(λ₁ − λ₂)` (arguments in radians) -/
def lawcos (T : Trig K) (lon₁ lat₁ lon₂ lat₂ : K) : K :=
  T.sin lat₁ * T.sin lat₂ + T.cos lat₁ * T.cos lat₂ * T.cos (lon₁ - lon₂)

/-- arc length between two points given in DEGREES, as the code computes it -/
def gcDist (T : Trig K) (lonA latA lonB latB : K) : K :=
  T.acos (lawcos T (T.deg2rad lonA) (T.deg2rad latA) (T.deg2rad lonB) (T.deg2rad latB))

/-- distance between two elements of the same kind `I`, read from THEIR coordinate arrays -/
def pairDist {I : Type} (T : Trig K) (lon lat : I → K) (a b : I) : K :=
  gcDist T (lon a) (lat a) (lon b) (lat b)

/-- `_construct_edge_node_distances(node_lon, node_lat, edge_node_connectivity)` -/
def edgeNodeDist (T : Trig K) (nodeLon nodeLat : NodeArr K) (en : EdgeNodes) : List K :=
  en.map (fun p => pairDist T nodeLon nodeLat p.1 p.2)

/-- the property's value for one row of `edge_face_connectivity` -/
def faceDistOf (T : Trig K) (faceLon faceLat : FaceArr K) (p : FaceIx × Option FaceIx) : K :=
  match p.2 with
  | some g => pairDist T faceLon faceLat p.1 g
  | none => 0

/-- REPAIRED `_construct_edge_face_distances(face_lon, face_lat, edge_face_connectivity)`:
    zeros, then the arc between the two FACE CENTRES where the edge has two faces -/
def edgeFaceDist (T : Trig K) (faceLon faceLat : FaceArr K) (ef : EdgeFaces) : List K :=
  ef.map (faceDistOf T faceLon faceLat)

/-- AS-IS `_construct_edge_face_distances(node_lon, node_lat, edge_face_connectivity)`:
    face numbers index the NODE coordinate arrays -/
def edgeFaceDistAsIs (T : Trig K) (nodeLon nodeLat : NodeArr K) (ef : EdgeFaces) : List K :=
  ef.map (fun p => match p.2 with
    | some g => pairDist T nodeLon nodeLat p.1.asNode g.asNode
    | none => 0)

/-! ### independent geodesic oracle (`atan2` form on Cartesian unit vectors) -/

def xyz (T : Trig K) (lon lat : K) : V3 K :=
  ⟨T.cos lat * T.cos lon, T.cos lat * T.sin lon, T.sin lat⟩

def dot3 (a b : V3 K) : K := a.x * b.x + a.y * b.y + a.z * b.z

def cross3 (a b : V3 K) : V3 K :=
  ⟨a.y * b.z - a.z * b.y, a.z * b.x - a.x * b.z, a.x * b.y - a.y * b.x⟩

/-- `atan2(|a × b|, a · b)` -/
def oracleAngle (sqrt : K → K) (atan2 : K → K → K) (a b : V3 K) : K :=
  atan2 (sqrt (dot3 (cross3 a b) (cross3 a b))) (dot3 a b)

/-- oracle distance between two points given in degrees -/
def oracleDist (T : Trig K) (sqrt : K → K) (atan2 : K → K → K) (lonA latA lonB latB : K) : K :=
  oracleAngle sqrt atan2 (xyz T (T.deg2rad lonA) (T.deg2rad latA))
    (xyz T (T.deg2rad lonB) (T.deg2rad latB))

/-! ### distances between DIRECTIONS: Cartesian positions of any radius

  The property speaks of the great-circle distance between two centres, i.e. between the
  directions of their position vectors.  A source may supply Cartesian positions with any
  radius (metres, an un-normalised corner mean, mixed radii); the distance model therefore
  carries the explicit normalisation step.  `Props/C16.lean` proves that `dirDist` and the
  oracle depend only on the directions (`dirDist_scale_invariant`, `oracleAngle_scale_invariant`)
  and that on (scaled) images of lon/lat points `dirDist` is the code's `gcDist`. -/

def scale3 (c : K) (a : V3 K) : V3 K := ⟨c * a.x, c * a.y, c * a.z⟩

/-- `a / |a|` -/
def normalize3 (sqrt : K → K) (a : V3 K) : V3 K :=
  ⟨a.x / sqrt (dot3 a a), a.y / sqrt (dot3 a a), a.z / sqrt (dot3 a a)⟩

/-- arc between the directions of two (non-zero) position vectors -/
def dirDist (acos sqrt : K → K) (a b : V3 K) : K :=
  acos (dot3 (normalize3 sqrt a) (normalize3 sqrt b))

/-- `edge_node_distances` for nodes given by Cartesian positions of any radius -/
def edgeNodeDistXYZ (acos sqrt : K → K) (node : NodeIx → V3 K) (en : EdgeNodes) : List K :=
  en.map (fun p => dirDist acos sqrt (node p.1) (node p.2))

/-- `edge_face_distances` for face centres given by Cartesian positions of any radius -/
def edgeFaceDistXYZ (acos sqrt : K → K) (centre : FaceIx → V3 K) (ef : EdgeFaces) : List K :=
  ef.map (fun p => match p.2 with
    | some g => dirDist acos sqrt (centre p.1) (centre g)
    | none => 0)

/-! ### differences -/

/-- the property's value of the face difference on one edge -/
def faceDiffOf (abs : K → K) (d : FaceArr K) (p : FaceIx × Option FaceIx) : K :=
  match p.2 with
  | some g => abs (d p.1 - d g)
  | none => 0

/-- `_calculate_edge_face_difference`: `zeros`; masked assignment `d[f₀] − d[f₁]`; `np.abs` of
    everything (so a boundary entry is `abs 0`) -/
def diffFace (abs : K → K) (ef : EdgeFaces) (d : FaceArr K) : List K :=
  ef.map (fun p => match p.2 with
    | some g => abs (d p.1 - d g)
    | none => abs 0)

/-- `_calculate_edge_node_difference` -/
def diffNode (abs : K → K) (en : EdgeNodes) (d : NodeArr K) : List K :=
  en.map (fun p => abs (d p.1 - d p.2))

/-! ### gradient -/

/-- the property's value of the gradient on one edge, `δ` the centre-to-centre distance -/
def gradOf (abs : K → K) (d : FaceArr K) (p : FaceIx × Option FaceIx) (δ : K) : K :=
  match p.2 with
  | some g => abs (d p.1 - d g) / δ
  | none => 0

/-- `_calculate_grad_on_edge_from_faces(normalize=False)`: the difference, divided by the
    distance on the two-face edges only -/
def gradEdge (abs : K → K) (ef : EdgeFaces) (dist : List K) (d : FaceArr K) : List K :=
  List.zipWith (fun p δ => match p.2 with
    | some g => abs (d p.1 - d g) / δ
    | none => abs 0) ef dist

/-- Σ x² -/
def sumsq : List K → K
  | [] => 0
  | x :: xs => x * x + sumsq xs

/-- divide one leading slice by ITS OWN Euclidean norm -/
def normalizeRow (sqrt : K → K) (row : List K) : List K :=
  row.map (· / sqrt (sumsq row))

/-- REPAIRED normalisation: `grad / np.linalg.norm(grad, axis=-1, keepdims=True)` -/
def normalizeLast (sqrt : K → K) (rows : List (List K)) : List (List K) :=
  rows.map (normalizeRow sqrt)

/-- AS-IS normalisation: `grad / np.linalg.norm(grad)` — ONE norm over all leading indices -/
def normalizeAsIs (sqrt : K → K) (rows : List (List K)) : List (List K) :=
  rows.map (fun r => r.map (· / sqrt (sumsq rows.flatten)))

/-! ### any rank: a rank-(k+1) array is the list of its leading slices (row-major order) -/

def differenceFaceND (abs : K → K) (ef : EdgeFaces) (datas : List (FaceArr K)) : List (List K) :=
  datas.map (diffFace abs ef)

def differenceNodeND (abs : K → K) (en : EdgeNodes) (datas : List (NodeArr K)) : List (List K) :=
  datas.map (diffNode abs en)

/-- REPAIRED `UxDataArray.gradient(normalize)` on the values -/
def gradientND (abs sqrt : K → K) (normalize : Bool) (ef : EdgeFaces) (dist : List K)
    (datas : List (FaceArr K)) : List (List K) :=
  let g := datas.map (gradEdge abs ef dist)
  if normalize then normalizeLast sqrt g else g

/-- AS-IS `UxDataArray.gradient(normalize)` on the values -/
def gradientNDAsIs (abs sqrt : K → K) (normalize : Bool) (ef : EdgeFaces) (dist : List K)
    (datas : List (FaceArr K)) : List (List K) :=
  let g := datas.map (gradEdge abs ef dist)
  if normalize then normalizeAsIs sqrt g else g

/-! ### decidable specifications evaluated by the driver on the implementation's output
    (the exact clauses; the float clauses carry a tolerance and live in `Driver/C16.lean`) -/

/-- `out` is exactly the per-edge absolute face difference, zero on boundary edges -/
def diffFaceSpecB [BEq K] (abs : K → K) (ef : EdgeFaces) (d : FaceArr K) (out : List K) : Bool :=
  out == ef.map (faceDiffOf abs d)

/-- `out` is exactly the per-edge absolute node difference -/
def diffNodeSpecB [BEq K] (abs : K → K) (en : EdgeNodes) (d : NodeArr K) (out : List K) : Bool :=
  out == en.map (fun p => abs (d p.1 - d p.2))

/-- `out` is exactly difference / distance on two-face edges and zero on boundary edges -/
def gradSpecB [BEq K] (abs : K → K) (ef : EdgeFaces) (dist : List K) (d : FaceArr K)
    (out : List K) : Bool :=
  out == List.zipWith (gradOf abs d) ef dist

end generic

/-! ### dimension bookkeeping and dispatch of the wrappers -/

/-- `dims = list(self.dims); dims[-1] = "n_edge"` -/
def resultDims {α : Type} (edge : α) (dims : List α) : List α := dims.dropLast ++ [edge]

inductive Centre | face | node | edge | other
deriving DecidableEq, Repr

/-- `_face_centered()` / `_node_centered()` / `_edge_centered()` tested in this order -/
def centreOf {α : Type} [BEq α] (face node edge : α) (dims : List α) : Centre :=
  if dims.contains face then .face
  else if dims.contains node then .node
  else if dims.contains edge then .edge
  else .other

inductive Dest | node | edge | face | bad
deriving DecidableEq, Repr

inductive Outcome | edgeFaceDifference | edgeNodeDifference | gradient | valueError | notImplemented
deriving DecidableEq, Repr

/-- `UxDataArray.difference(destination)` -/
def differenceDispatch (c : Centre) (d : Dest) : Outcome :=
  match d with
  | .bad => .valueError
  | _ =>
    match c with
    | .face => if d = .edge then .edgeFaceDifference else .valueError
    | .node => if d = .edge then .edgeNodeDifference else .valueError
    | .edge => .notImplemented
    | .other => .valueError

/-- `UxDataArray.gradient()` -/
def gradientDispatch (c : Centre) : Outcome :=
  match c with
  | .face => .gradient
  | _ => .valueError

/-! ### source-supplied distances (MPAS `dvEdge`, `dcEdge`) -/

/-- the two kinds of MPAS points an edge separates -/
inductive MpasPoint | vertex | cell
deriving DecidableEq, Repr

/-- the file's distance table between the two points of kind `k` at each edge:
    `dvEdge` between vertices, `dcEdge` between cells -/
def mpasTable {K : Type} (dv dc : List K) : MpasPoint → List K
  | .vertex => dv
  | .cell => dc

/-- primal mesh: nodes are vertices; dual mesh: nodes are cells -/
def mpasNodeKind (dual : Bool) : MpasPoint := if dual then .cell else .vertex
/-- primal mesh: faces are cells; dual mesh: faces are vertices -/
def mpasFaceKind (dual : Bool) : MpasPoint := if dual then .vertex else .cell

/-- REPAIRED reader: (`edge_node_distances`, `edge_face_distances`) of the primal / dual grid -/
def mpasDistances {K : Type} (dual : Bool) (dv dc : List K) : List K × List K :=
  (mpasTable dv dc (mpasNodeKind dual), mpasTable dv dc (mpasFaceKind dual))

/-- AS-IS reader: `dvEdge → edge_node_distances`, `dcEdge → edge_face_distances` for both meshes -/
def mpasDistancesAsIs {K : Type} (_dual : Bool) (dv dc : List K) : List K × List K := (dv, dc)

end UxVerif.EdgeOps
