/-
  UxVerif.Model.Basic — shared, import-free (core Lean only) executable foundations.

  * `FILL`            : the padding sentinel (`INT_FILL_VALUE`, regenerated from /repo).
  * `Table`           : a rectangular integer table as a list of rows.
  * `padRow / pad`    : standard form of a face-node table (indices then only `FILL`).
  * `faceOf`          : the real corners of a padded row.
  * `sortUniqBy`      : insertion into a strictly sorted list = model of `np.unique`.
  * `segs`            : consecutive corner pairs of a face, including the closing pair.
-/
import UxVerif.Gen.Constants

namespace UxVerif

/-- The standard padding value used by every connectivity table. -/
def FILL : Int := Gen.INT_FILL_VALUE

abbrev Table := List (List Int)
/-- A mesh as the list of its faces' real corners (no padding). -/
abbrev Mesh := List (List Nat)

/-- `face_node_connectivity` row of face `f` in a table of width `w`. -/
def padRow (w : Nat) (f : List Nat) : List Int :=
  f.map Int.ofNat ++ List.replicate (w - f.length) FILL

def pad (w : Nat) (m : Mesh) : Table := m.map (padRow w)

/-- real corners of a padded row: everything before the first `FILL`. -/
def faceOf (r : List Int) : List Int := r.takeWhile (fun x => x != FILL)

/-- Unordered pair as a sorted pair (`edge_nodes.sort(axis=1)`). -/
def sortPair (p : Int × Int) : Int × Int := if p.1 ≤ p.2 then p else (p.2, p.1)

/-- consecutive pairs `(c₀,c₁),(c₁,c₂),…,(c_{k-1},c₀)` of a corner list. -/
def segs {α} (f : List α) : List (α × α) :=
  match f with
  | [] => []
  | a :: _ => List.zip f (f.tail ++ [a])

/-- lexicographic strict order on pairs (the order `np.unique(axis=0)` sorts rows by). -/
def pairLt (a b : Int × Int) : Bool :=
  decide (a.1 < b.1) || (decide (a.1 = b.1) && decide (a.2 < b.2))

def intLt (a b : Int) : Bool := decide (a < b)

/-! ### `np.unique`: insertion into a strictly sorted list -/

def insUniq {α} [DecidableEq α] (lt : α → α → Bool) (x : α) : List α → List α
  | [] => [x]
  | y :: ys =>
    if lt x y then x :: y :: ys
    else if x = y then y :: ys
    else y :: insUniq lt x ys

def sortUniqBy {α} [DecidableEq α] (lt : α → α → Bool) (l : List α) : List α :=
  l.foldr (insUniq lt) []

/-- `np.unique` on a 1-D integer array. -/
def uniqInt (l : List Int) : List Int := sortUniqBy intLt l
/-- `np.unique(axis=0)` on an `n × 2` integer array. -/
def uniqPair (l : List (Int × Int)) : List (Int × Int) := sortUniqBy pairLt l

/-- position of `x` in `l` as an `Int` (`return_inverse`). -/
def rank {α} [BEq α] (l : List α) (x : α) : Int := Int.ofNat (l.idxOf x)

/-- row `i` of a table, `[]` if out of range. -/
def rowAt (t : Table) (i : Nat) : List Int := t.getD i []

/-- integer entry with a default of `FILL` (never used as a silent default in a theorem:
    every statement that reads an entry also bounds the index). -/
def entry (r : List Int) (j : Nat) : Int := r.getD j FILL

/-- look up with an `Int` index, `none` when negative or out of range (a NumPy fancy index
    with `FILL` would wrap around; the model refuses instead, and theorems prove it is never
    asked to). -/
def getI? {α} (l : List α) (i : Int) : Option α :=
  if i < 0 then none else l[i.toNat]?

def sumInt (l : List Int) : Int := l.foldl (· + ·) 0
def sumNat (l : List Nat) : Nat := l.foldl (· + ·) 0

end UxVerif
