/-
  UxVerif.Model.Dual — transcription of `uxarray/grid/dual.py`
  (`construct_dual`, `construct_faces`, `_order_nodes`), of the data side of
  `UxDataArray.get_dual`, and the C18 specification.

  * `valence`, `constructFaces`  : the per-node loop with its `correction` bookkeeping, the
    pre-allocated result table (`np.sum(n_edges > 2)` rows of width `len(nfc[0])`).
  * `orderNodes`                 : the selection loop of `_order_nodes` over an ABSTRACT key type
    `K` with an abstract strict comparison `lt` (so the theorems hold for any key).
  * `keyWith`                    : the key itself (`arccos` of the normalised dot, reflected by the
    side test) generic over the scalar type: run at `Float` by the driver, reasoned about over
    any commutative ring / field in `Props/C18.lean`.  `repaired = false` is the code as found in
    the snapshot (angle between the 3-D chords), `repaired = true` is the algorithm after
    `fixes/C18-tangent-angle.patch` (= /repo commit c1960934: angle between the tangent-plane
    parts, cosine clamped on both sides).
  * `Spec` pieces                : `CountOK`, `RowsOK` (discrete), `ringDefects` (discrete,
    C03's incidence tables), `ccwSorted` (polynomial sign tests on the coordinates, no `arccos`).
-/
import UxVerif.Model.Incidence

namespace UxVerif.Dual
open UxVerif UxVerif.Incidence

/-! ## 3-vectors over an abstract scalar type -/

structure V3 (K : Type) where
  x : K
  y : K
  z : K

section vec
variable {K : Type} [Add K] [Sub K] [Mul K]

def V3.sub (a b : V3 K) : V3 K := ⟨a.x - b.x, a.y - b.y, a.z - b.z⟩
def V3.smul (k : K) (a : V3 K) : V3 K := ⟨k * a.x, k * a.y, k * a.z⟩
/-- `np.dot` -/
def dot (a b : V3 K) : K := a.x * b.x + a.y * b.y + a.z * b.z
/-- `np.cross` -/
def cross (a b : V3 K) : V3 K :=
  ⟨a.y * b.z - a.z * b.y, a.z * b.x - a.x * b.z, a.x * b.y - a.y * b.x⟩
/-- scalar triple product `c · (a × b)` -/
def tri (c a b : V3 K) : K := dot c (cross a b)

end vec

/-- the run-time functions `_order_nodes` calls (parameters of the model) -/
structure Num (K : Type) where
  sqrt : K → K
  acos : K → K
  lt : K → K → Bool
  twoPi : K

section key
variable {K : Type} [Add K] [Sub K] [Mul K] [Div K] [Neg K] [OfNat K 0] [OfNat K 1]

/-- `np.linalg.norm` -/
def norm (R : Num K) (a : V3 K) : K := R.sqrt (dot a a)

/-- tangent-plane part of `v` at `c`:  `v − (v·c / c·c) c`  (used by the repaired algorithm) -/
def tproj (c v : V3 K) : V3 K := v.sub (V3.smul (dot v c / dot c c) c)

/-- `d_side = np.dot(np.cross(node_0, node_central), node_diff)` -/
def side (c n0 d : V3 K) : K := dot (cross n0 c) d

/-- the angle computed from the two (projected) vectors and the side value:
    `arccos` of the normalised dot, clamped, reflected to `2π − θ` when `d_side > 0` -/
def keyOfVecs (R : Num K) (clampLow : Bool) (z d : V3 K) (sd : K) : K :=
  let dn := dot z d / (norm R z * norm R d)
  let dn := if R.lt 1 dn then 1 else dn
  let dn := if clampLow && R.lt dn (-1) then -1 else dn
  let a := R.acos dn
  if R.lt 0 sd then -a + R.twoPi else a

/-- `d_angles[j]` of `_order_nodes` for the dual node at `s` (centre of a primal face), seen from
    the primal node `c`, relative to the first dual node `n0`. -/
def keyWith (R : Num K) (repaired : Bool) (c n0 s : V3 K) : K :=
  let z0 := n0.sub c
  let z := if repaired then tproj c z0 else z0
  let d0 := s.sub c
  let d := if repaired then tproj c d0 else d0
  keyOfVecs R repaired z d (side c n0 d)

/-- `vec − (vec·normal) normal`: the tangent part ONLY when `normal` is a unit vector.  Not what the
    code does; kept as the model of a tempting simplification (`asis_unit_normal_helper_wrong`). -/
def tprojUnit (c v : V3 K) : V3 K := v.sub (V3.smul (dot v c) c)

/-- the key with `tprojUnit` in place of `tproj` (raw, possibly non-unit `c`) -/
def keyUnitHelper (R : Num K) (c n0 s : V3 K) : K :=
  let z := tprojUnit c (n0.sub c)
  let d := tprojUnit c (s.sub c)
  keyOfVecs R true z d (side c n0 d)

end key

/-! ## `_order_nodes`: selection by strictly increasing key -/

section order
variable {K : Type}

/-- body of the inner loop `for k in range(1, n_edges)`:
    `if d_current_angle < d_angles[k] < d_next_angle: ix_next_node = k; d_next_angle = d_angles[k]`
    (state = the item chosen so far and `d_next_angle`) -/
def pickStep (lt : K → K → Bool) (cur : K) (st : Option (K × Int) × K) (it : K × Int) :
    Option (K × Int) × K :=
  if lt cur it.1 && lt it.1 st.2 then (some it, it.1) else st

/-- one pass of the inner loop; `none` ⇔ `ix_next_node == -1` -/
def pick (lt : K → K → Bool) (cur twoPi : K) (items : List (K × Int)) : Option (K × Int) :=
  (items.foldl (pickStep lt cur) (none, twoPi)).1

/-- the outer loop `for j in range(1, n_edges)`: position `j` receives the picked value, or stays
    `FILL` when nothing is picked (`continue`, `d_current_angle` unchanged). -/
def steps (lt : K → K → Bool) (twoPi : K) (items : List (K × Int)) : Nat → K → List Int
  | 0, _ => []
  | f + 1, cur =>
    match pick lt cur twoPi items with
    | none => FILL :: steps lt twoPi items f cur
    | some it => it.2 :: steps lt twoPi items f it.1

/-- `final_face`: `max_edges` entries, `[0] = temp_face[0]`, then the selection, then padding -/
def orderNodes (lt : K → K → Bool) (zero twoPi : K) (maxEdges : Nat) (first : Int)
    (items : List (K × Int)) : List Int :=
  let body := first :: steps lt twoPi items items.length zero
  body ++ List.replicate (maxEdges - body.length) FILL

end order

/-! ## `construct_faces` -/

/-- `n_edges[i] = np.sum(node_face_connectivity[i] != FILL)` -/
def valence (r : List Int) : Nat := (r.filter (fun x => x != FILL)).length

/-- the nodes that get a dual face, in increasing order -/
def keptNodes (NF : Table) : List Nat :=
  (List.range NF.length).filter (fun i => decide (3 ≤ valence (rowAt NF i)))

/-- the faces gathered for one node.  As found: `nfc[i][0 : n_edges[i]]` — the first `n_edges`
    entries, which are the node's faces only when the row is padded at the end.  Repaired
    (`fixes/C18-node-face-padding.patch` = /repo commit b97cc1ce): `row[row != FILL]`, the non-padding entries wherever the
    padding is (source-supplied tables, e.g. MPAS `cellsOnVertex`, pad anywhere). -/
def gatherRow (filt : Bool) (r : List Int) : List Int :=
  if filt then real r else r.take (valence r)

/-- the row built for node `i`: the gathered faces, ordered from the first one.
    `keyOf i first f` is `d_angles` of face `f` (entries that are `FILL` keep `d_angles = 0`). -/
def dualRowWith (filt : Bool) {K : Type} (lt : K → K → Bool) (zero twoPi : K)
    (keyOf : Nat → Int → Int → K) (W i : Nat) (r : List Int) : List Int :=
  match gatherRow filt r with
  | [] => List.replicate W FILL
  | first :: rest =>
    if first != FILL then
      orderNodes lt zero twoPi W first
        (rest.map (fun f => (if f != FILL then keyOf i first f else zero, f)))
    else List.replicate W FILL

/-- the repaired algorithm -/
def dualRow {K : Type} (lt : K → K → Bool) (zero twoPi : K) (keyOf : Nat → Int → Int → K)
    (W i : Nat) (r : List Int) : List Int := dualRowWith true lt zero twoPi keyOf W i r

/-- the loop of `construct_faces`, literally: a pre-allocated table of `np.sum(n_edges > 2)` rows
    of `FILL`, row `i - correction` overwritten for every node with at least three faces. -/
def constructFaces (rowOf : Nat → Nat → List Int → List Int) (NF : Table) : Table :=
  let W := (NF.headD []).length
  let cnt := NF.countP (fun r => decide (2 < valence r))
  let init : Table := List.replicate cnt (List.replicate W FILL)
  ((List.range NF.length).foldl (fun (st : Nat × Table) i =>
      let r := rowAt NF i
      if valence r < 3 then (st.1 + 1, st.2)
      else (st.1, st.2.set (i - st.1) (rowOf W i r))) (0, init)).2

/-! ### schedule-free formulation (what a parallel per-node loop may rely on)

  Node `i` writes row `keptBefore NF i` — the number of kept nodes with a smaller index, a function
  of the input alone, not a loop-carried counter — so the nodes can be processed in any order. -/

def keptBefore (NF : Table) (i : Nat) : Nat :=
  ((List.range i).filter (fun j => decide (3 ≤ valence (rowAt NF j)))).length

def schedStep (rowOf : Nat → Nat → List Int → List Int) (NF : Table) (W : Nat) (T : Table) (i : Nat) :
    Table :=
  if valence (rowAt NF i) < 3 then T else T.set (keptBefore NF i) (rowOf W i (rowAt NF i))

/-- the per-node writes executed in the order `order` (any schedule of the iterations) -/
def constructFacesSched (rowOf : Nat → Nat → List Int → List Int) (NF : Table) (order : List Nat) :
    Table :=
  let W := (NF.headD []).length
  let cnt := NF.countP (fun r => decide (2 < valence r))
  order.foldl (schedStep rowOf NF W) (List.replicate cnt (List.replicate W FILL))

/-- coordinates as the code reads them: `(node_x, node_y, node_z)[i]` and the dual node
    `(face_x, face_y, face_z)[f]` -/
def vecAt {K : Type} [OfNat K 0] (P : List (V3 K)) (i : Int) : V3 K :=
  (getI? P i).getD ⟨0, 0, 0⟩

section full
variable {K : Type} [Add K] [Sub K] [Mul K] [Div K] [Neg K] [OfNat K 0] [OfNat K 1]

def keyOfGeom (R : Num K) (repaired : Bool) (nodes cents : List (V3 K)) (i : Nat) (first f : Int) : K :=
  keyWith R repaired (vecAt nodes (Int.ofNat i)) (vecAt cents first) (vecAt cents f)

def keyOfGeomUnitHelper (R : Num K) (nodes cents : List (V3 K)) (i : Nat) (first f : Int) : K :=
  keyUnitHelper R (vecAt nodes (Int.ofNat i)) (vecAt cents first) (vecAt cents f)

/-- `construct_dual` on coordinates -/
def constructDual (R : Num K) (repaired filt : Bool) (nodes cents : List (V3 K)) (NF : Table) : Table :=
  constructFaces (dualRowWith filt R.lt 0 R.twoPi (keyOfGeom R repaired nodes cents)) NF

/-- the same with the unit-normal helper as the projection (regression model only) -/
def constructDualUnitHelper (R : Num K) (nodes cents : List (V3 K)) (NF : Table) : Table :=
  constructFaces (dualRowWith true R.lt 0 R.twoPi (keyOfGeomUnitHelper R nodes cents)) NF

end full

/-! ## data side of `UxDataArray.get_dual` -/

/-- dimension names as small codes: 0 = `n_node`, 1 = `n_edge`, 2 = `n_face`, other = any other -/
def swapDim (d : Nat) : Nat := if d = 2 then 0 else if d = 0 then 2 else d

/-- `dims = [dim_map.get(dim, dim) for dim in self.dims]`, `data = np.array(self.values)` -/
def dualData {α : Type} (dims : List Nat) (values : List α) : List Nat × List α :=
  (dims.map swapDim, values)

/-! ## Specification (C18), discrete part -/

/-- padding only at the end: after the first `FILL` everything is `FILL` -/
def EndPadded (r : List Int) : Prop := ∀ x ∈ r.dropWhile (fun x => x != FILL), x = FILL

instance (r) : Decidable (EndPadded r) := by unfold EndPadded; infer_instance

/-- one dual face per primal node with at least three faces -/
def CountOK (NF D : Table) : Prop := D.length = (keptNodes NF).length

/-- the corners of a dual face are exactly the primal faces meeting at its node -/
def RowOK (nf d : List Int) : Prop := EndPadded d ∧ (real d).Perm (real nf)

instance (nf d) : Decidable (RowOK nf d) := by unfold RowOK; infer_instance

def RowsOK (NF D : Table) : Prop :=
  ∀ p ∈ List.zip (keptNodes NF) D, RowOK (rowAt NF p.1) p.2

instance (NF D) : Decidable (CountOK NF D) := by unfold CountOK; infer_instance
instance (NF D) : Decidable (RowsOK NF D) := by unfold RowsOK; infer_instance

/-- the discrete clauses that hold for every mesh -/
def DiscreteSpec (NF D : Table) : Prop := CountOK NF D ∧ RowsOK NF D

instance (NF D) : Decidable (DiscreteSpec NF D) := by unfold DiscreteSpec; infer_instance

/-! ### ring clause: consecutive corners are primal faces sharing an edge at the node
    (C03's tables: `FE` = face_edge, `N` = n_nodes_per_face, `E` = edge_node) -/

def commonEdges (FE : Table) (N : List Nat) (f g : Nat) : List Int :=
  (faceEdgesOf FE N f).filter (fun e => (faceEdgesOf FE N g).contains e)

def edgeHas (E : List (Int × Int)) (e : Int) (v : Nat) : Bool :=
  match getI? E e with
  | some p => p.1 == Int.ofNat v || p.2 == Int.ofNat v
  | none => false

/-- faces `f` and `g` share an edge that ends at node `v` -/
def sharesAt (FE : Table) (N : List Nat) (E : List (Int × Int)) (v : Nat) (f g : Int) : Bool :=
  decide (0 ≤ f) && decide (0 ≤ g) &&
    (commonEdges FE N f.toNat g.toNat).any (fun e => edgeHas E e v)

/-- number of cyclically consecutive corner pairs that do NOT share an edge at `v` -/
def ringDefects (FE : Table) (N : List Nat) (E : List (Int × Int)) (v : Nat) (row : List Int) : Nat :=
  ((segs row).filter (fun p => !sharesAt FE N E v p.1 p.2)).length

/-- the edges with a single adjacent face (computed once per mesh) -/
def boundaryEdges (FE : Table) (N : List Nat) (nEdge : Nat) : List Nat :=
  let ev := efEvents FE N
  (List.range nEdge).filter (fun e => (feed ev e).length == 1)

/-- number of gaps in the ring of faces around `v`: half its boundary edges (0 = interior node) -/
def gapsAt (E : List (Int × Int)) (bnd : List Nat) (v : Nat) : Nat :=
  (bnd.filter (fun e => edgeHas E (Int.ofNat e) v)).length / 2

/-! ### counter-clockwise clause: polynomial sign tests on the coordinates (no `arccos`).
    `d_f = centre_f − c`; `tri c a b = c·(a×b)` is insensitive to the radial parts of `a, b`;
    `tdot` is `(c·c)` times the dot product of the tangent parts. -/

section ccw
variable {K : Type} [Add K] [Sub K] [Mul K] [Neg K] [OfNat K 0]

def tdot (c a b : V3 K) : K := dot a b * dot c c - dot a c * dot b c

/-- sign with a margin: `1`, `-1`, or `0` when `|x| ≤ eps·scale` -/
def sgn (R : Num K) (eps x scale : K) : Int :=
  if R.lt (eps * scale) x then 1 else if R.lt x (-(eps * scale)) then -1 else 0

/-- which half turn (counter-clockwise from `d0`, seen from outside) `d` lies in:
    `some 0` = (0, π), `some 1` = [π, 2π), `none` = indistinguishable from the direction of `d0` -/
def halfOf (R : Num K) (eps : K) (c d0 d : V3 K) : Option Nat :=
  let sc := norm R c * norm R d0 * norm R d
  match sgn R eps (tri c d0 d) sc with
  | 1 => some 0
  | -1 => some 1
  | _ => if R.lt (tdot c d0 d) 0 then some 1 else none

/-- `a` strictly before `b` in counter-clockwise order starting at `d0`; `none` = near tie -/
def before (R : Num K) (eps : K) (c d0 a b : V3 K) : Option Bool :=
  match halfOf R eps c d0 a, halfOf R eps c d0 b with
  | some ha, some hb =>
    if ha < hb then some true else if hb < ha then some false
    else
      match sgn R eps (tri c a b) (norm R c * norm R a * norm R b) with
      | 1 => some true
      | -1 => some false
      | _ => none
  | _, _ => none

/-- verdict on one ring: `some true` = strictly counter-clockwise from its first corner,
    `some false` = not, `none` = a near tie prevents judging -/
def ccwSorted (R : Num K) (eps : K) (c : V3 K) (cents : List (V3 K)) (row : List Int) : Option Bool :=
  match row with
  | [] => some true
  | first :: rest =>
    let d0 := (vecAt cents first).sub c
    let ds := rest.map (fun f => (vecAt cents f).sub c)
    let halves := ds.map (halfOf R eps c d0)
    let pairs := (List.zip ds ds.tail).map (fun p => before R eps c d0 p.1 p.2)
    if halves.any Option.isNone || pairs.any Option.isNone then none
    else some (pairs.all (fun o => o == some true))

/-- insertion into a list sorted by `before` (ties go after) -/
def insBy (R : Num K) (eps : K) (c d0 : V3 K) (cents : List (V3 K)) (f : Int) : List Int → List Int
  | [] => [f]
  | g :: gs =>
    if before R eps c d0 ((vecAt cents f).sub c) ((vecAt cents g).sub c) == some true
    then f :: g :: gs else g :: insBy R eps c d0 cents f gs

/-- independent oracle: the faces of a ring sorted counter-clockwise from the first one -/
def azSort (R : Num K) (eps : K) (c : V3 K) (cents : List (V3 K)) (row : List Int) : List Int :=
  match row with
  | [] => []
  | first :: rest =>
    first :: rest.foldr (insBy R eps c ((vecAt cents first).sub c) cents) []

end ccw

/-! ### per-mesh verdict used by the driver -/

structure Geo (K : Type) where
  nodes : List (V3 K)
  cents : List (V3 K)
  eps : K

structure Topo where
  FE : Table
  N : List Nat
  nEdge : Nat
  E : List (Int × Int)

structure Verdict where
  count : Bool
  rows : Bool
  /-- nodes whose ring is judged / skipped because the centres are not angularly ordered like the
      face ring (mesh geometry) / skipped for a near tie / skipped for more than one gap -/
  judged : Nat
  geomSkipped : Nat
  tieSkipped : Nat
  gapSkipped : Nat
  ringBad : List Nat
  ccwBad : List Nat

section verdict
variable {K : Type} [Add K] [Sub K] [Mul K] [Neg K] [OfNat K 0]

/-- 0 = judged and fine, 1 = ring clause fails, 2 = ccw clause fails, 3 = both,
    4 = geometry skip, 5 = tie skip, 6 = gap skip -/
def nodeVerdict (R : Num K) (g : Geo K) (t : Topo) (bnd : List Nat) (v : Nat) (row : List Int) : Nat :=
  let gaps := gapsAt t.E bnd v
  if 1 < gaps then 6 else
  let c := vecAt g.nodes (Int.ofNat v)
  let r := real row
  let oracle := azSort R g.eps c g.cents r
  match ccwSorted R g.eps c g.cents oracle with
  | none => 5
  | some false => 5
  | some true =>
    if gaps < ringDefects t.FE t.N t.E v oracle then 4 else
    let ringBad := decide (gaps < ringDefects t.FE t.N t.E v r)
    let ccwBad := ccwSorted R g.eps c g.cents r != some true
    (if ringBad then 1 else 0) + (if ccwBad then 2 else 0)

def verdict (R : Num K) (g : Geo K) (t : Topo) (NF D : Table) : Verdict :=
  let bnd := boundaryEdges t.FE t.N t.nEdge
  let vs := (List.zip (keptNodes NF) D).map (fun p => (p.1, nodeVerdict R g t bnd p.1 p.2))
  { count := decide (CountOK NF D), rows := decide (RowsOK NF D),
    judged := (vs.filter (fun p => p.2 < 4)).length,
    geomSkipped := (vs.filter (fun p => p.2 == 4)).length,
    tieSkipped := (vs.filter (fun p => p.2 == 5)).length,
    gapSkipped := (vs.filter (fun p => p.2 == 6)).length,
    ringBad := (vs.filter (fun p => p.2 == 1 || p.2 == 3)).map (·.1),
    ccwBad := (vs.filter (fun p => p.2 == 2 || p.2 == 3)).map (·.1) }

end verdict

end UxVerif.Dual
