/-
  UxVerif.Model.Arcs — exact spherical-arc geometry on direction vectors (C14).

  Everything is generic over the scalar type `K`: the same definitions are *executed* by the
  driver at the exact rationals (core `Rat`) and *proved about* in `Props/C14.lean` over every
  linearly ordered field / commutative ring.  Points of the sphere are represented by any
  non-zero direction vector (all predicates are homogeneous, so no normalisation – and no square
  root – is ever needed).

  * `OnArc a b p`      : `p` lies on the minor great-circle arc from `a` to `b`
                         (on the great circle, and between the end points).
  * `intersections`    : the candidates `±(a×b)×(c×d)` filtered by membership of both arcs
                         (what `gca_gca_intersection` computes, in exact arithmetic).
  * `apex`, `ApexInside`, `extremeZ2` : the closed form behind `extreme_gca_latitude`.
  * margins            : the rational quantities whose sign / size decides each case, used by the
                         harness to keep only inputs ≥ 1e-6 rad away from every decision boundary.
  * `nearArc`          : "on the arc up to a tolerance", evaluated on the implementation's
                         returned points (floats are dyadic rationals, so this is exact too).
-/
namespace UxVerif.Arcs

structure V3 (K : Type) where
  x : K
  y : K
  z : K
deriving DecidableEq, Repr

section Algebra
variable {K : Type} [Add K] [Sub K] [Mul K] [Neg K]

def dot (a b : V3 K) : K := a.x * b.x + a.y * b.y + a.z * b.z

def cross (a b : V3 K) : V3 K :=
  ⟨a.y * b.z - a.z * b.y, a.z * b.x - a.x * b.z, a.x * b.y - a.y * b.x⟩

def neg (a : V3 K) : V3 K := ⟨-a.x, -a.y, -a.z⟩

def smul (k : K) (a : V3 K) : V3 K := ⟨k * a.x, k * a.y, k * a.z⟩

def add (a b : V3 K) : V3 K := ⟨a.x + b.x, a.y + b.y, a.z + b.z⟩

def normSq (a : V3 K) : K := dot a a

/-- rotation about the polar (z) axis by the angle whose cosine / sine are `c` / `s`
    (a rotation when `c*c + s*s = 1`) -/
def rotZ (c s : K) (a : V3 K) : V3 K := ⟨c * a.x - s * a.y, s * a.x + c * a.y, a.z⟩

/-- normal of the great circle through `a` and `b` -/
abbrev normal (a b : V3 K) : V3 K := cross a b

/-- the two candidate intersection directions of the great circles of `(a,b)` and `(c,d)` -/
def meetDir (a b c d : V3 K) : V3 K := cross (cross a b) (cross c d)

/-- the north-most direction of the great circle with normal `n`:
    `(n × e_z) × n = |n|² e_z − n_z n` -/
def apexOf (n : V3 K) : V3 K :=
  ⟨-(n.x * n.z), -(n.y * n.z), n.x * n.x + n.y * n.y⟩

def apex (a b : V3 K) : V3 K := apexOf (cross a b)

/-- `|a|²·b_z − (a·b)·a_z`: sign of the rate of change of latitude when leaving `a` towards `b` -/
def rise (a b : V3 K) : K := normSq a * b.z - dot a b * a.z

end Algebra

section Order
variable {K : Type} [Add K] [Sub K] [Mul K] [Neg K] [OfNat K 0] [LE K] [LT K]

/-- the zero vector -/
def zero : V3 K := ⟨0, 0, 0⟩

/-- `a` and `b` span a plane: the arc has a length strictly between 0° and 180° -/
def ValidArc (a b : V3 K) : Prop := cross a b ≠ zero

/-- `p` is on the great circle of `(a,b)` and between `a` and `b` (closed arc). -/
def OnArc (a b p : V3 K) : Prop :=
  dot (cross a b) p = 0 ∧ 0 ≤ dot (cross a p) (cross a b) ∧ 0 ≤ dot (cross p b) (cross a b)

/-- the two arcs lie on different great circles -/
def DiffCircles (a b c d : V3 K) : Prop := meetDir a b c d ≠ zero

/-- `x` is a common point of the two arcs -/
def OnBoth (a b c d x : V3 K) : Prop := OnArc a b x ∧ OnArc c d x

/-- the north apex of the great circle lies strictly inside the arc -/
def ApexInside (a b : V3 K) : Prop := 0 < rise a b ∧ 0 < rise b a

/-- the south apex of the great circle lies strictly inside the arc -/
def NadirInside (a b : V3 K) : Prop := rise a b < 0 ∧ rise b a < 0

variable [DecidableEq K] [DecidableLE K] [DecidableLT K]

instance (a b : V3 K) : Decidable (ValidArc a b) := by unfold ValidArc; infer_instance
instance (a b p : V3 K) : Decidable (OnArc a b p) := by unfold OnArc; infer_instance
instance (a b c d : V3 K) : Decidable (DiffCircles a b c d) := by unfold DiffCircles; infer_instance
instance (a b c d x : V3 K) : Decidable (OnBoth a b c d x) := by unfold OnBoth; infer_instance
instance (a b : V3 K) : Decidable (ApexInside a b) := by unfold ApexInside; infer_instance
instance (a b : V3 K) : Decidable (NadirInside a b) := by unfold NadirInside; infer_instance

/-- **exact `gca_gca_intersection`** for arcs on different great circles: of the two antipodal
    directions common to both great circles keep those lying on both arcs. -/
def intersections (a b c d : V3 K) : List (V3 K) :=
  [meetDir a b c d, neg (meetDir a b c d)].filter (fun x => decide (OnBoth a b c d x))

/-- do the arcs have a common point (different great circles) -/
def arcsMeet (a b c d : V3 K) : Bool := !(intersections a b c d).isEmpty

end Order

/-! ### Margins and tolerant membership (executed at `Rat`; `tol2` is the *square* of the
    angular tolerance, all comparisons are between squares so no root is needed) -/
section Margins
variable {K : Type} [Add K] [Sub K] [Mul K] [Neg K] [OfNat K 0] [LE K] [LT K]
  [DecidableEq K] [DecidableLE K] [DecidableLT K]

/-- `x² ≥ tol2 · scale` -/
def farFromZero (tol2 x scale : K) : Bool := decide (tol2 * scale ≤ x * x)

/-- the arc is at least `tol` away from being degenerate (length 0° or 180°):
    `sin²(length) = |a×b|²/(|a|²|b|²) ≥ tol²` -/
def arcLenMargin (tol2 : K) (a b : V3 K) : Bool :=
  decide (tol2 * (normSq a * normSq b) ≤ normSq (cross a b))

/-- squared-sine test: `p` is at least `tol` away from the great circle of `(a,b)` -/
def offCircleBy (tol2 : K) (a b p : V3 K) : Bool :=
  farFromZero tol2 (dot (cross a b) p) (normSq (cross a b) * normSq p)

/-- for `p` on the great circle: at least `tol` away (along the circle) from `±a` and `±b` -/
def offEndsBy (tol2 : K) (a b p : V3 K) : Bool :=
  farFromZero tol2 (dot (cross a p) (cross a b)) (normSq a * normSq p * normSq (cross a b)) &&
  farFromZero tol2 (dot (cross p b) (cross a b)) (normSq b * normSq p * normSq (cross a b))

/-- the exact decision `OnArc a b p` is at least `tol` away from flipping -/
def onArcMargin (tol2 : K) (a b p : V3 K) : Bool :=
  if dot (cross a b) p = 0 then offEndsBy tol2 a b p else offCircleBy tol2 a b p

/-- classification of a query point: 0 on the arc, 1 on the circle but outside the arc,
    2 off the circle -/
def classify (a b p : V3 K) : Nat :=
  if dot (cross a b) p = 0 then (if decide (OnArc a b p) then 0 else 1) else 2

/-- squared sine of the angle between the two planes is ≥ tol2 -/
def planesApartBy (tol2 : K) (a b c d : V3 K) : Bool :=
  decide (tol2 * (normSq (cross a b) * normSq (cross c d)) ≤ normSq (meetDir a b c d))

/-- every decision taken by `intersections a b c d` is at least `tol` away from flipping:
    the planes make an angle ≥ tol and the common direction is ≥ tol from all four end points
    (and their antipodes) -/
def meetMargin (tol2 : K) (a b c d : V3 K) : Bool :=
  planesApartBy tol2 a b c d &&
  offEndsBy tol2 a b (meetDir a b c d) && offEndsBy tol2 c d (meetDir a b c d)

/-- tolerant membership for a returned (floating-point) point `x`: within `tol` of the great
    circle and not more than `tol` outside either end point -/
def nearArc (tol2 : K) (a b x : V3 K) : Bool :=
  let n := cross a b
  decide (dot n x * dot n x ≤ tol2 * (normSq n * normSq x)) &&
  (decide (0 ≤ dot (cross a x) n) ||
    decide (dot (cross a x) n * dot (cross a x) n ≤ tol2 * (normSq a * normSq x * normSq n))) &&
  (decide (0 ≤ dot (cross x b) n) ||
    decide (dot (cross x b) n * dot (cross x b) n ≤ tol2 * (normSq b * normSq x * normSq n)))

end Margins

/-! ### `extreme_gca_latitude`: the closed form the code evaluates, and the exact answer -/
section Extreme
variable {K : Type} [Add K] [Sub K] [Mul K] [Neg K] [Div K] [OfNat K 0] [OfNat K 1] [LE K] [LT K]
  [DecidableEq K] [DecidableLE K] [DecidableLT K]

/-- mirror image in the equatorial plane (swaps "max" and "min") -/
def flipZ (a : V3 K) : V3 K := ⟨a.x, a.y, -a.z⟩

/-- `d_a_max = (n1_z (n1·n2) − n2_z) / ((n1_z + n2_z) ((n1·n2) − 1))` (unit end points) -/
def dAMax (a b : V3 K) : K := (a.z * dot a b - b.z) / ((a.z + b.z) * (dot a b - 1))

/-- `node3 = (1 − d_a_max)·n1 + d_a_max·n2` (before normalisation) -/
def node3 (a b : V3 K) : V3 K := add (smul (1 - dAMax a b) a) (smul (dAMax a b) b)

/-- the branch `0 < d_a_max < 1` of the code -/
def codeInterior (a b : V3 K) : Prop := 0 < dAMax a b ∧ dAMax a b < 1
instance (a b : V3 K) : Decidable (codeInterior a b) := by unfold codeInterior; infer_instance

def maxK (x y : K) : K := if x ≤ y then y else x
def minK (x y : K) : K := if x ≤ y then x else y

/-- The exact maximum of sin(latitude) over the arc between the UNIT vectors `a`, `b`, described
    without a square root: `(true, q)` – the maximum is attained at the north apex and its
    *square* is `q = (n_x²+n_y²)/|n|²`; `(false, v)` – it is attained at an end point and
    equals `v`. -/
def extremeMax (a b : V3 K) : Bool × K :=
  if ApexInside a b then
    (true, ((cross a b).x * (cross a b).x + (cross a b).y * (cross a b).y) / normSq (cross a b))
  else (false, maxK a.z b.z)

/-- the exact minimum: `(true, q)` – attained at the south apex, sin² = `q` (sin ≤ 0);
    `(false, v)` – attained at an end point. -/
def extremeMin (a b : V3 K) : Bool × K :=
  if NadirInside a b then
    (true, ((cross a b).x * (cross a b).x + (cross a b).y * (cross a b).y) / normSq (cross a b))
  else (false, minK a.z b.z)

/-- `tol`-margin of the branch decision of the extreme latitude: the apex of the great circle
    is at least `tol` (along the circle) away from both end points (squared-sine comparison;
    `sin∠(a, apex) = rise a b / (|a|·√(n_x²+n_y²))`) -/
def extremeMargin (tol2 : K) (a b : V3 K) : Bool :=
  let h := (cross a b).x * (cross a b).x + (cross a b).y * (cross a b).y
  farFromZero tol2 (rise a b) (normSq a * h) && farFromZero tol2 (rise b a) (normSq b * h)

end Extreme

/-! ### Floating-point evaluation of the plane residual `(a×b)·p` (standard model)

  `np.cross` and `np.dot` on 3-vectors, with one rounding after every arithmetic operation and one
  for each coordinate of the inputs (the implementation receives the correctly rounded doubles of
  the exact points).  `r i` is the rounding applied at operation site `i`; the sites may round
  differently (round-to-nearest, a fused multiply-add that does not round a product, …) – the
  theorems of `Props/C14.lean` only use `|r i x − x| ≤ u·|x|`.  Overflow/underflow is outside the
  model. -/
section FloatModel
variable {K : Type} [Add K] [Sub K] [Mul K]

def rndV (r : Nat → K → K) (i : Nat) (a : V3 K) : V3 K := ⟨r i a.x, r (i + 1) a.y, r (i + 2) a.z⟩

def flCross (r : Nat → K → K) (a b : V3 K) : V3 K :=
  ⟨r 2 (r 0 (a.y * b.z) - r 1 (a.z * b.y)),
   r 5 (r 3 (a.z * b.x) - r 4 (a.x * b.z)),
   r 8 (r 6 (a.x * b.y) - r 7 (a.y * b.x))⟩

def flDot (r : Nat → K → K) (n p : V3 K) : K :=
  r 13 (r 12 (r 9 (n.x * p.x) + r 10 (n.y * p.y)) + r 11 (n.z * p.z))

/-- the number `point_within_gca` compares with its plane tolerance, as computed in floating
    point from the exact points `a b p` -/
def flResidual (r : Nat → K → K) (a b p : V3 K) : K :=
  flDot r (flCross r (rndV r 14 a) (rndV r 17 b)) (rndV r 20 p)

end FloatModel

/-! ### Call sequences on one arc object (purity of the primitives)

  A caller hands the SAME array to several primitives one after the other.  In the model a
  primitive is a function of the VALUES and returns the state it was given, so every answer in
  every history is the answer on the original values (`Props/C14.lean`: `session_state_const`,
  `session_answers`).  The harness checks the two observable halves of that on the
  implementation: no call changes the bytes of an argument, and every answer of a sequence on a
  shared object equals the answer on a fresh copy of the original values.

  `runWith` is the same loop for an arbitrary step function; `stepOverwrite` is a step that
  "walks" the first end point to the interior extreme in place (the shape of an in-place
  `node3 = n1; node3 += d*(n2 - n1)`), used as the witness that the clause is not vacuous. -/
section Session
variable {K : Type} [Add K] [Sub K] [Mul K] [Neg K] [Div K] [OfNat K 0] [OfNat K 1] [LE K] [LT K]
  [DecidableEq K] [DecidableLE K] [DecidableLT K]

/-- one call on the shared arc `(a, b)` -/
inductive Op (K : Type) where
  | extMax                       -- extreme_gca_latitude(g, "max")
  | extMin                       -- extreme_gca_latitude(g, "min")
  | within (p : V3 K)            -- point_within_gca(p, g)
  | meetFirst (c d : V3 K)       -- gca_gca_intersection(g, [c, d])
  | meetSecond (c d : V3 K)      -- gca_gca_intersection([c, d], g)

inductive Ans (K : Type) where
  | ext (v : Bool × K)
  | bool (b : Bool)
  | pts (l : List (V3 K))
deriving DecidableEq

/-- the answer of a call as a function of the VALUES of the arc -/
def answer (a b : V3 K) : Op K → Ans K
  | .extMax => .ext (extremeMax a b)
  | .extMin => .ext (extremeMin a b)
  | .within p => .bool (decide (OnArc a b p))
  | .meetFirst c d => .pts (intersections a b c d)
  | .meetSecond c d => .pts (intersections c d a b)

abbrev Arc (K : Type) := V3 K × V3 K

/-- a pure primitive: answers from the values, hands the object back unchanged -/
def step (s : Arc K) (op : Op K) : Arc K × Ans K := (s, answer s.1 s.2 op)

/-- a sequence of calls with an arbitrary step function -/
def runWith (st : Arc K → Op K → Arc K × Ans K) (s : Arc K) : List (Op K) → Arc K × List (Ans K)
  | [] => (s, [])
  | op :: ops =>
    let r := st s op
    let rest := runWith st r.1 ops
    (rest.1, r.2 :: rest.2)

def runSession (s : Arc K) (ops : List (Op K)) : Arc K × List (Ans K) := runWith step s ops

/-- an impure step: the answer is right, but an interior extreme leaves the (un-normalised)
    chord point `node3` in the slot of the first end point -/
def stepOverwrite (s : Arc K) (op : Op K) : Arc K × Ans K :=
  match op with
  | .extMax | .extMin =>
    (if codeInterior s.1 s.2 then (node3 s.1 s.2, s.2) else s, answer s.1 s.2 op)
  | _ => (s, answer s.1 s.2 op)

end Session

/-! ### The longitude/latitude interval logic of the UNREPAIRED `_point_within_gca_body`
    (the branch for arcs through a pole), transcribed with exact comparisons in place of
    `isclose`, `pi` being a parameter.  Kept as the regression witness of the defects that
    `fixes/C14-point-within-gca-vector-test.patch` removes (see `Props/C14.lean`, `asis_*`). -/
section AsIs
variable {K : Type} [Add K] [Sub K] [Mul K] [Neg K] [Div K] [OfNat K 0] [OfNat K 2] [LE K] [LT K]
  [DecidableEq K] [DecidableLE K] [DecidableLT K]

def absK (x : K) : K := if x < 0 then -x else x

/-- `in_between(p, q, r)` -/
def inBetween (p q r : K) : Bool :=
  (decide (p ≤ q) && decide (q ≤ r)) || (decide (r ≤ q) && decide (q ≤ p))

/-- `_decide_pole_latitude(lat1, lat2)` -/
def decidePoleLat (pi lat1 lat2 : K) : K :=
  if absK (pi / 2 - absK lat1) + pi / 2 + absK lat2 < pi then
    (if 0 < lat1 then pi / 2 else -(pi / 2))
  else (if 0 < lat1 then -(pi / 2) else pi / 2)

/-- the as-is decision for an arc through a pole (`|lon1 − lon0| = π`, no end point and no
    query point at a pole), after the plane test has passed -/
def asIsPoleBranch (pi lon0 lat0 lon1 lat1 lonp latp : K) : Bool :=
  if lon0 ≠ lonp ∧ lon1 ≠ lonp then false
  else
    let pole :=
      if (0 < lat0 ∧ 0 < lat1) ∨ (lat0 < 0 ∧ lat1 < 0) then
        (if 0 < lat0 then pi / 2 else -(pi / 2))
      else decidePoleLat pi lat0 lat1
    inBetween lat0 latp pole || inBetween pole latp lat1

end AsIs

end UxVerif.Arcs
