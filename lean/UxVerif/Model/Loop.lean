/-
  Generic line-protocol loop: one request per input line, one answer per output line.
  Each property has its own tiny executable `drv_cXX` (root `Drivers/CXX.lean`) so that a model
  that stops compiling blocks only its own property.
-/
namespace UxVerif.Loop

def parseInts (toks : List String) : Option (List Int) := toks.mapM String.toInt?

def answer (dispatch : String → List Int → Option String) (line : String) : String :=
  match (line.splitOn " ").filter (· ≠ "") with
  | [] => "bad-op empty"
  | cmd :: rest =>
    match parseInts rest with
    | none => "bad-op parse"
    | some args =>
      match dispatch cmd args with
      | some out => out
      | none => "bad-op " ++ cmd

partial def loop (dispatch : String → List Int → Option String)
    (h : IO.FS.Stream) (out : IO.FS.Stream) : IO Unit := do
  let line ← h.getLine
  if line.isEmpty then return ()
  out.putStrLn (answer dispatch line.trimAscii.toString)
  out.flush
  loop dispatch h out

def run (dispatch : String → List Int → Option String) : IO Unit := do
  loop dispatch (← IO.getStdin) (← IO.getStdout)

end UxVerif.Loop
