/-
  UxVerif.Model.Encode — C07: transcription of the three grid encoders
  (`io/_ugrid.py::_encode_ugrid`, `io/_exodus.py::_encode_exodus`, `io/_scrip.py::_encode_scrip`,
  dispatched by `Grid.to_xarray` / `Grid.encode_as`), of the part of the readers that undoes them,
  and of the process-wide state they touch (the module-level `BASE_GRID_TOPOLOGY_ATTRS` template).

  Every behaviour that the code as it stands gets wrong is a switch of `Cfg`; `Cfg.asis` is the
  code of the pinned snapshot, `Cfg.repaired` is the code after the `fixes/C07-*.patch` repairs.
  Core Lean only (this file is linked into the driver).
-/
import UxVerif.Model.Basic
import UxVerif.Model.Readers
import UxVerif.Gen.Conventions

namespace UxVerif.Encode
open UxVerif

/-! ## configuration: which repairs are in force -/

structure Cfg where
  /-- `_encode_ugrid` starts from a copy of the module template (as-is: aliases and mutates it) -/
  copyTemplate : Bool
  /-- the UGRID export carries only attributes netCDF can hold (as-is: every attribute travels) -/
  stripAttrs : Bool
  /-- `_encode_exodus` looks for `INT_FILL_VALUE` in a row (as-is: for `-1`) -/
  exoFillTest : Bool
  /-- `_encode_exodus` advances `start += num_faces` (as-is: `start = num_faces`) -/
  exoStartAccum : Bool
  /-- `_encode_exodus` converts the stored degrees to radians before `_lonlat_rad_to_xyz` -/
  exoDeg2rad : Bool
  /-- `_encode_scrip` repeats a face's last corner in the padding slots (as-is: indexes with FILL) -/
  scripPadLast : Bool
  /-- the UGRID export of a Cartesian-only grid carries `node_lon`/`node_lat` (as-is: it names them
      in the topology without having them) -/
  ensureLonLat : Bool
  /-- the UGRID export drops the file's `_FillValue` / `missing_value` / `dtype` from the `.encoding` of
      a variable that carries a `_FillValue` attribute (as-is: the stale encoding travels) -/
  dropStaleEncoding : Bool
deriving Repr, DecidableEq

def Cfg.asis : Cfg := ⟨false, false, false, false, false, false, false, false⟩
def Cfg.repaired : Cfg := ⟨true, true, true, true, true, true, true, true⟩

/-! ## datasets as far as the encoders look at them -/

/-- what netCDF makes of an attribute value -/
inductive AttrKind | str | num | numArray | bool | other
deriving Repr, DecidableEq

def AttrKind.ofCode : Nat → AttrKind
  | 0 => .str | 1 => .num | 2 => .numArray | 3 => .bool | _ => .other

def AttrKind.toCode : AttrKind → Nat
  | .str => 0 | .num => 1 | .numArray => 2 | .bool => 3 | .other => 4

/-- a string, a number or an array of numbers can be a netCDF attribute -/
def AttrKind.encodable : AttrKind → Bool
  | .str | .num | .numArray => true
  | _ => false

/-- a variable of `Grid._ds`: name, dimensions, attributes (key and kind of value) -/
structure Var where
  name : String
  dims : List String
  attrs : List (String × AttrKind)
deriving Repr, DecidableEq

/-- attributes cached on variables for internal use (`_INTERNAL_ATTRS` of the repaired encoder) -/
def internalAttrs : List String := ["inverse_indices", "fill_value_mask"]

/-- `_is_encodable_attr` of the repaired `_encode_ugrid` -/
def keepAttr (a : String × AttrKind) : Bool := !internalAttrs.contains a.1 && a.2.encodable

def Var.strip (v : Var) : Var := { v with attrs := v.attrs.filter keepAttr }

/-- a variable can be written by `to_netcdf` -/
def Var.serialisable (v : Var) : Bool := v.attrs.all (fun a => a.2.encodable)

/-- xarray's `.encoding` of the variables of a dataset: variable name ↦ the keys it holds (what
    `xr.open_dataset` remembers of the file: `_FillValue`, `dtype`, `zlib`, `source`, …; a variable
    computed in memory has none) -/
abbrev Encodings := List (String × List String)

def encOf (e : Encodings) (name : String) : List String :=
  ((e.find? (fun p => p.1 == name)).map (·.2)).getD []

/-- The grid's dataset: `face_node_connectivity` with its payload, the node positions (stored as
    `node_lon`/`node_lat` when `lonlat`; a Cartesian-only source has them only as `node_x/y/z`
    among the `extras` until the spherical ones are derived), and whatever else has been
    materialised on the grid (`extras`: derived connectivity, centres, areas, bounds, Cartesian
    coordinates … — any variables at all). -/
structure Ds (P : Type) where
  table : Table
  nodes : List P
  lonlat : Bool
  extras : List Var
  /-- `.encoding` of the grid's variables (file-sourced grids) -/
  encoding : Encodings := []
  /-- the VALUE of the `start_index` attribute `face_node_connectivity` carries on the grid (`none`: the
      variable has no such attribute — a grid read from a source that declared none) -/
  fnStart : Option Int := some 0

/-- `node_lon`, `node_lat` as the conventions describe them -/
def lonlatVars : List Var :=
  [ ⟨"node_lon", ["n_node"], [("standard_name", .str), ("long name", .str), ("units", .str)]⟩,
    ⟨"node_lat", ["n_node"], [("standard_name", .str), ("long name", .str), ("units", .str)]⟩ ]

def fncVar : Var :=
  ⟨"face_node_connectivity", ["n_face", "n_max_face_nodes"],
    [("cf_role", .str), ("long name", .str), ("start_index", .num), ("_FillValue", .num)]⟩

/-- the three defining variables of a UGRID export -/
def coreVars : List Var := lonlatVars ++ [fncVar]

/-- `"grid_topology" in ds → ds.drop_vars(["grid_topology"])` -/
def dropTopo (vs : List Var) : List Var := vs.filter (fun v => v.name != "grid_topology")

def Ds.vars {P} (d : Ds P) : List Var :=
  (if d.lonlat then lonlatVars else []) ++ fncVar :: dropTopo d.extras
def varNames (vs : List Var) : List String := vs.map (·.name)
def varDims (vs : List Var) : List String := vs.flatMap (·.dims)

/-- the variables of the export: (repaired) a dataset with `node_x` but without `node_lon` gets
    `node_lon`/`node_lat` computed from the Cartesian coordinates -/
def exportVars (cfg : Cfg) (vs : List Var) : List Var :=
  if cfg.ensureLonLat && !(varNames vs).contains "node_lon" && (varNames vs).contains "node_x"
  then vs ++ lonlatVars else vs

/-! ## UGRID -/

/-- attributes of the `grid_topology` variable: key ↦ the names its value mentions -/
abbrev Topo := List (String × List String)

/-- Python `d[k] = v`: overwrite in place, or append -/
def setKey (t : Topo) (k : String) (v : List String) : Topo :=
  if t.any (fun e => e.1 == k) then t.map (fun e => if e.1 == k then (k, v) else e)
  else t ++ [(k, v)]

def lookupKey (t : Topo) (k : String) : Option (List String) :=
  (t.find? (fun e => e.1 == k)).map (·.2)

/-- the body of `_encode_ugrid` between reading the template and building the DataArray -/
def topoOf (tmpl : Topo) (vs : List Var) : Topo :=
  let names := varNames vs
  let t := tmpl
  let t := if (varDims vs).contains "n_edge" then setKey t "edge_dimension" ["n_edge"] else t
  let t := if names.contains "face_lon" then setKey t "face_coordinates" ["face_lon", "face_lat"] else t
  let t := if names.contains "edge_lon" then setKey t "edge_coordinates" ["edge_lon", "edge_lat"] else t
  Gen.Conv.CONNECTIVITY_NAMES.foldl (fun t c => if names.contains c then setKey t c [c] else t) t

/-- the exported dataset -/
structure UgridOut (P : Type) where
  table : Table
  nodes : List P
  /-- every exported variable except `grid_topology` -/
  vars : List Var
  topo : Topo
  /-- `.encoding` of the exported variables -/
  encoding : Encodings := []
  /-- the `start_index` attribute of the exported `face_node_connectivity` (attributes are copied) -/
  fnStart : Option Int := some 0

/-- encoding keys that `to_netcdf` (CF encoding) writes as ATTRIBUTES of the variable: a key that is
    already among the attributes is refused (`ValueError: Key … already exists in attrs`) -/
def cfEncodingKeys : List String :=
  ["_FillValue", "missing_value", "scale_factor", "add_offset", "units", "calendar"]

/-- what the repaired exporter removes from the `.encoding` of a variable with a `_FillValue` attribute -/
def staleKeys : List String := ["_FillValue", "missing_value", "dtype"]

def hasFillAttr (vs : List Var) (name : String) : Bool :=
  vs.any (fun v => v.name == name && v.attrs.any (fun a => a.1 == "_FillValue"))

def exportEncoding (cfg : Cfg) (vs : List Var) (e : Encodings) : Encodings :=
  if cfg.dropStaleEncoding then
    e.map (fun p => if hasFillAttr vs p.1 then (p.1, p.2.filter (fun k => !staleKeys.contains k)) else p)
  else e

/-- `to_netcdf` refuses the variable: one of its CF encoding keys is also an attribute -/
def encodingConflict (v : Var) (ks : List String) : Bool :=
  ks.any (fun k => cfEncodingKeys.contains k && v.attrs.any (fun a => a.1 == k))

/-- `_encode_ugrid`: returns the export and the module-level template afterwards -/
def encodeUgrid {P} (cfg : Cfg) (tmpl : Topo) (d : Ds P) : UgridOut P × Topo :=
  let vs := d.vars
  let topo := topoOf tmpl vs
  let out := exportVars cfg vs
  let outVars := if cfg.stripAttrs then out.map Var.strip else out
  ({ table := d.table, nodes := d.nodes,
     vars := outVars,
     topo := topo,
     encoding := exportEncoding cfg outVars d.encoding,
     fnStart := d.fnStart },
   if cfg.copyTemplate then tmpl else topo)

/-- attribute keys of the topology variable whose value is not a list of names -/
def nonNameKeys : List String := ["cf_role", "topology_dimension", "long_name"]

/-- **self-consistency**: every variable, coordinate and dimension named by the topology metadata
    exists in the dataset -/
def ClosedIn (t : Topo) (vs : List Var) : Prop :=
  ∀ e ∈ t, e.1 ∉ nonNameKeys → ∀ n ∈ e.2, n ∈ varNames vs ∨ n ∈ varDims vs

instance (t vs) : Decidable (ClosedIn t vs) := by unfold ClosedIn; infer_instance

def UgridOut.Closed {P} (o : UgridOut P) : Prop := ClosedIn o.topo o.vars
def UgridOut.serialisable {P} (o : UgridOut P) : Bool := o.vars.all Var.serialisable

/-- **the export can be written by `to_netcdf`**: every attribute is a netCDF attribute and no variable
    has a CF encoding key that is also one of its attributes -/
def UgridOut.writable {P} (o : UgridOut P) : Bool :=
  o.serialisable && o.vars.all (fun v => !encodingConflict v (encOf o.encoding v.name))

/-- names the reader (`_read_ugrid`) renames: each must be a variable of the dataset
    (`Dataset.rename` raises otherwise) -/
def readerNames (t : Topo) : List String :=
  (lookupKey t "node_coordinates").getD [] ++
  (lookupKey t "edge_coordinates").getD [] ++
  (lookupKey t "face_coordinates").getD [] ++
  Gen.Conv.CONNECTIVITY_NAMES.flatMap (fun c => (lookupKey t c).getD [])

/-! ### `_standardize_connectivity`: the start index -/

/-- smallest real (non-padding) entry of a table -/
def minNonFill (t : Table) : Option Int := (t.flatten.filter (· != FILL)).min?

/-- shift every real entry by `s` -/
def shiftTable (s : Int) (t : Table) : Table :=
  t.map (·.map (fun x => if x = FILL then FILL else x - s))

/-- `_standardize_connectivity` on a table that already has the standard dtype and fill value:
    the `start_index` ATTRIBUTE when the variable has one — whatever its value, `0` included —
    otherwise the smallest real entry (and `0` for a table of padding only). -/
def standardize (start : Option Int) (t : Table) : Table :=
  shiftTable (match start with
    | some s => s
    | none => (minNonFill t).getD 0) t

/-- a reader that tests the attribute's truth value (`if not start_index`) confuses an explicit
    `start_index = 0` with an absent attribute -/
def standardizeFalsy (start : Option Int) (t : Table) : Table :=
  standardize (match start with
    | some 0 => none
    | s => s) t

/-- The `start_index` attribute an exported connectivity variable carries: the grid's tables are
    0-based, so a variable that has the attribute has it with value `0` (the conventions'
    `*_CONNECTIVITY_ATTRS`, regenerated as `Gen.Conv.VAR_START_INDEX`). -/
def startOf (v : Var) : Option Int :=
  if v.attrs.any (fun a => a.1 == "start_index") then some 0 else none

/-! ### what the reader leaves on the grid: the standardized table AND the attributes describing it -/

/-- a connectivity variable of `Grid._ds` after `_standardize_connectivity` -/
structure StdVar where
  table : Table
  /-- the `start_index` attribute (`none`: absent) -/
  startAttr : Option Int
  /-- the `_FillValue` attribute -/
  fillAttr : Option Int
deriving Repr, DecidableEq

/-- how `_standardize_connectivity` leaves the `start_index` attribute:
    `reset` — the tree: `if "start_index" in attrs: attrs["start_index"] = 0`;
    `setdefault` — `attrs.setdefault("start_index", 0)`: a declared value survives -/
inductive StartReset | reset | setdefault
deriving Repr, DecidableEq

/-- `_standardize_connectivity` on any UGRID source variable (values: C01's reader model) -/
def standardizeVar (mode : StartReset) (s : Readers.USource) : Except String StdVar :=
  match Readers.decodeUgrid s with
  | .error e => .error e
  | .ok t => .ok
    { table := t
      fillAttr := some FILL
      startAttr := match mode, s.startAttr with
        | .reset, some _ => some 0
        | .reset, none => none
        | .setdefault, some a => some a
        | .setdefault, none => some 0 }

/-- **the attributes describe the stored values**: the fill attribute is the fill in the table, and
    reading the table under its own `start_index` attribute changes nothing -/
def StdVar.consistent (v : StdVar) : Prop :=
  v.fillAttr = some FILL ∧ standardize v.startAttr v.table = v.table

instance (v : StdVar) : Decidable v.consistent := by unfold StdVar.consistent; infer_instance

/-- `_read_ugrid` on an export: `none` when it raises.  The payload is found through the names the
    topology gives for the node coordinates and for `face_node_connectivity`; the table is
    standardised with the `start_index` attribute of the exported variable. -/
def decodeUgrid {P} (o : UgridOut P) : Option (Table × List P) :=
  if (readerNames o.topo).all (fun n => (varNames o.vars).contains n)
      && lookupKey o.topo "node_coordinates" == some ["node_lon", "node_lat"]
      && lookupKey o.topo "face_node_connectivity" == some ["face_node_connectivity"]
  then
    match o.vars.find? (fun v => v.name == "face_node_connectivity") with
    | some _ => some (standardize o.fnStart o.table, o.nodes)
    | none => none
  else none

/-- carried-over connectivity tables of a re-opened grid: `(name, start_index attribute of the
    export, table on the grid, table on the re-opened grid)`.  Specification: every table comes back
    entry by entry; model of the reader: the standardised exported table. -/
def carriedFailing (ts : List (String × Option Int × Table × Table)) : List String :=
  (ts.filter (fun e => e.2.2.1 != e.2.2.2)).map (·.1)

/-- the reader standardises the connectivity variables (`CONNECTIVITY_NAMES`) and leaves every
    other variable (`n_nodes_per_face`) alone -/
def readTable (name : String) (start : Option Int) (t : Table) : Table :=
  if Gen.Conv.CONNECTIVITY_NAMES.contains name then standardize start t else t

def carriedModelDiffers (ts : List (String × Option Int × Table × Table)) : List String :=
  (ts.filter (fun e => readTable e.1 e.2.1 e.2.2.1 != e.2.2.2)).map (·.1)

/-! ## Exodus -/

/-- stable insertion by length (`list.sort(key=len)`) -/
def insLen (x : List Int) : List (List Int) → List (List Int)
  | [] => [x]
  | y :: ys => if x.length ≤ y.length then x :: y :: ys else y :: insLen x ys

def sortLen (l : List (List Int)) : List (List Int) := l.foldr insLen []

/-- the value looked for in a row -/
def exoFill (cfg : Cfg) : Int := if cfg.exoFillTest then FILL else -1

/-- `row[:arr[0][0]]`, or the whole row when the value is absent -/
def exoRow (cfg : Cfg) (r : List Int) : List Int := r.take (r.idxOf (exoFill cfg))

/-- index into `num_el_all_blks` of a row with `k` entries (`k - 1`; `-1` wraps around) -/
def bucketIdx (w k : Nat) : Nat := if k = 0 then w - 1 else k - 1

/-- `num_el_all_blks` -/
def exoCounts (w : Nat) (rows : List (List Int)) : List Nat :=
  (List.range w).map (fun i => rows.countP (fun r => bucketIdx w r.length == i))

structure Block where
  /-- `num_nod_per_el<b>` -/
  nodesPerEl : Nat
  /-- `connect<b>` (1-based) -/
  connect : List (List Int)
  /-- `global_id<b>[0]` -/
  firstId : Nat
deriving Repr, DecidableEq

/-- `_get_element_type(k)` returns a name: `k` is in its table, or beyond the size from which the
    function names every size (`"SHELL<k>"`, repair `C07-exodus-element-type-any-size`) -/
def elemTypeKnown (k : Nat) : Bool :=
  Gen.Conv.EXODUS_ELEMENT_TYPES.any (fun e => e.1 == k) ||
  (match Gen.Conv.EXODUS_GENERIC_FROM with
   | some g => decide (g ≤ k)
   | none => false)

/-- the regenerated facts about `_get_element_type` that make it total on polygons: every size
    `3 … 16` has a name and the function has a rule from some size `≤ 17` on.  True of the tree
    with `C07-exodus-element-type-any-size` (`EXODUS_GENERIC_FROM = some 2`), false of the snapshot
    (`none`: a 9-gon raises `KeyError`). -/
def exoTotalFrom3 : Bool :=
  (List.range 17).all (fun k => decide (k < 3) || elemTypeKnown k) &&
  (match Gen.Conv.EXODUS_GENERIC_FROM with
   | some g => decide (g ≤ 17)
   | none => false)

/-- the block loop: `s` = `conn_nofill` sorted, `cs` = the non-zero counts in index order.
    `none` = the code raises (index error, unknown element type, ragged or short block). -/
def exoBlocks (cfg : Cfg) (s : List (List Int)) : Nat → List Nat → Option (List Block)
  | _, [] => some []
  | start, c :: cs =>
    match s[start]? with
    | none => none
    | some first =>
      let rows := (s.drop start).take c
      if elemTypeKnown first.length && rows.length == c
          && rows.all (fun r => r.length == first.length) then
        match exoBlocks cfg s (if cfg.exoStartAccum then start + c else c) cs with
        | none => none
        | some rest =>
          some ({ nodesPerEl := first.length, connect := rows.map (·.map (· + 1)),
                  firstId := start + 1 } :: rest)
      else none

structure ExoOut (X : Type) where
  coord : List X
  blocks : List Block

/-- `_encode_exodus`.  `radToXyz` is `_lonlat_rad_to_xyz`, `deg2rad` is `np.deg2rad`; `storedXyz`
    is `node_x/y/z` when they have been materialised on the grid. -/
def encodeExodus {P X} (cfg : Cfg) (radToXyz : P → X) (deg2rad : P → P)
    (storedXyz : Option (List X)) (w : Nat) (t : Table) (nodes : List P) : Option (ExoOut X) :=
  let coord := match storedXyz with
    | some xyz => xyz
    | none => nodes.map (fun p => radToXyz (if cfg.exoDeg2rad then deg2rad p else p))
  let rows := t.map (exoRow cfg)
  let cs := (exoCounts w rows).filter (· != 0)
  (exoBlocks cfg (sortLen rows) 0 cs).map (fun b => { coord := coord, blocks := b })

/-- one `connect` row as `_read_exodus` standardises it: 0-based, `-1 → FILL`, padded -/
def exoDecRow (w : Nat) (r : List Int) : List Int :=
  let z := r.map (fun x => if x - 1 = -1 then FILL else x - 1)
  z ++ List.replicate (w - z.length) FILL

def blocksWidth (bs : List Block) : Nat := (bs.map (·.nodesPerEl)).foldl max 0

/-- a reader that concatenates every `connect` block -/
def decodeExodusAll (bs : List Block) : Table :=
  bs.flatMap (fun b => b.connect.map (exoDecRow (blocksWidth bs)))

/-- `_read_exodus` as it stands: each block overwrites `conn`, the last one survives -/
def decodeExodusLast (bs : List Block) : Table :=
  match bs.getLast? with
  | none => []
  | some b => b.connect.map (exoDecRow (blocksWidth bs))

/-! ## SCRIP -/

/-- the index used for column `j` of a row: the entry, or (repaired) the last real corner -/
def scripIdx (cfg : Cfg) (r : List Int) (x : Int) : Int :=
  if x = FILL && cfg.scripPadLast then entry r ((faceOf r).length - 1) else x

/-- `node_lon[f_nodes]`, `node_lat[f_nodes]` reshaped: `none` = IndexError -/
def encodeScrip {P} (cfg : Cfg) (t : Table) (nodes : List P) : Option (List (List P)) :=
  t.mapM (fun r => r.mapM (fun x => getI? nodes (scripIdx cfg r x)))

/-- `_read_scrip` / `_to_ugrid`: nodes = `np.unique` of all corners, faces = the inverse -/
def decodeScrip {P} [DecidableEq P] (lt : P → P → Bool) (c : List (List P)) :
    List P × Table :=
  let u := sortUniqBy lt c.flatten
  (u, c.map (·.map (rank u)))

/-- trailing repeats of the last corner are padding (reader repair `C07-scrip-reader-padding`):
    the last `m - 1` entries, where `m` is the length of the trailing run of the last value -/
def collapseRow (r : List Int) : List Int :=
  match r.reverse with
  | [] => []
  | a :: rest =>
    let m := (rest.takeWhile (· == a)).length
    r.take (r.length - m) ++ List.replicate m FILL

def decodeScripCollapse {P} [DecidableEq P] (lt : P → P → Bool) (c : List (List P)) :
    List P × Table :=
  let (u, t) := decodeScrip lt c
  (u, t.map collapseRow)

/-- corner positions of a decoded face row -/
def rowPositions {P} (nodes : List P) (r : List Int) : List (Option P) :=
  (faceOf r).map (getI? nodes)

/-! ## histories: several grids, one process -/

inductive Fmt | ugrid | exodus | scrip
deriving Repr, DecidableEq

inductive Op
  /-- some derived quantities are computed on grid `g`: variables appear in its dataset -/
  | materialise (g : Nat) (vs : List Var)
  /-- `grids[g].to_xarray(fmt)` -/
  | encode (g : Nat) (f : Fmt)

structure World (P : Type) where
  tmpl : Topo
  grids : List (Ds P)

/-- parameters that are the same for the whole run -/
structure Env (P X : Type) where
  radToXyz : P → X
  deg2rad : P → P
  /-- `node_x/y/z` as the grid computes them -/
  toXyz : P → X

inductive Out (P X : Type)
  | ugrid (o : UgridOut P)
  | exodus (o : Option (ExoOut X))
  | scrip (o : Option (List (List P)))
  | nothing

/-- variables `Grid.to_xarray("scrip")` materialises on the grid as a side effect (`self.node_lon`,
    `self.node_lat`, `self.face_areas`, which asks for `n_nodes_per_face`): each only when the
    dataset does not have it yet (a grid read from MPAS brings its own `face_areas`) -/
def scripSide (names : List String) : List Var :=
  (if names.contains "node_lon" then [] else lonlatVars) ++
  (if names.contains "face_areas" then [] else
    (if names.contains "n_nodes_per_face" then []
     else [⟨"n_nodes_per_face", ["n_face"], [("cf_role", .str), ("long name", .str)]⟩]) ++
    [⟨"face_areas", ["n_face"], [("cf_role", .str), ("long_name", .str)]⟩])

def Ds.add {P} (d : Ds P) (vs : List Var) : Ds P := { d with extras := d.extras ++ vs }

def hasXyz (vs : List Var) : Bool := (varNames vs).contains "node_x"

def tableWidth (t : Table) : Nat := (t.headD []).length

/-- one encoder call on one grid, given the template it sees -/
def encodeOne {P X} (cfg : Cfg) (env : Env P X) (tmpl : Topo) (d : Ds P) : Fmt → Out P X × Topo
  | .ugrid => let r := encodeUgrid cfg tmpl d; (.ugrid r.1, r.2)
  | .exodus =>
    (.exodus (encodeExodus cfg env.radToXyz env.deg2rad
      (if hasXyz d.vars then some (d.nodes.map env.toXyz) else none)
      (tableWidth d.table) d.table d.nodes), tmpl)
  | .scrip => (.scrip (encodeScrip cfg d.table d.nodes), tmpl)

/-! ### the two public entry points -/

/-- `Grid.to_xarray(grid_format)` and the deprecated `Grid.encode_as(grid_type)` -/
inductive Entry | toXarray | encodeAs
deriving Repr, DecidableEq

/-- the spellings each dispatcher accepts (anything else raises) -/
def Entry.parse : Entry → String → Option Fmt
  | .toXarray, "ugrid" => some .ugrid
  | .toXarray, "exodus" => some .exodus
  | .toXarray, "scrip" => some .scrip
  | .encodeAs, "UGRID" => some .ugrid
  | .encodeAs, "Exodus" => some .exodus
  | .encodeAs, "SCRIP" => some .scrip
  | _, _ => none

/-- an export through an entry point: the dispatcher only selects the encoder; `none` = it raises -/
def exportVia {P X} (cfg : Cfg) (env : Env P X) (tmpl : Topo) (d : Ds P) (e : Entry) (s : String) :
    Option (Out P X × Topo) :=
  (e.parse s).map (encodeOne cfg env tmpl d)

/-- what an operation adds to the dataset `d` of the grid it is applied to -/
def effect {P} (d : Ds P) : Op → List Var
  | .materialise _ vs => vs
  | .encode _ .scrip => scripSide (varNames d.vars)
  | .encode _ _ => []

def Ds.apply {P} (d : Ds P) (op : Op) : Ds P := d.add (effect d op)

def Op.grid : Op → Nat
  | .materialise g _ => g
  | .encode g _ => g

def step {P X} (cfg : Cfg) (env : Env P X) (w : World P) (op : Op) : World P × Out P X :=
  let grids' := w.grids.modify op.grid (fun d => d.apply op)
  match op with
  | .materialise _ _ => ({ w with grids := grids' }, .nothing)
  | .encode g f =>
    match w.grids[g]? with
    | none => (w, .nothing)
    | some d =>
      let r := encodeOne cfg env w.tmpl d f
      ({ tmpl := r.2, grids := grids' }, r.1)

def run {P X} (cfg : Cfg) (env : Env P X) : World P → List Op → World P × List (Out P X)
  | w, [] => (w, [])
  | w, op :: ops =>
    let r := step cfg env w op
    let rs := run cfg env r.1 ops
    (rs.1, r.2 :: rs.2)

/-- the dataset of grid `g` after the history: only the operations on `g` itself touch it -/
def evolve {P} (g : Nat) (d : Ds P) : List Op → Ds P
  | [] => d
  | op :: ops => evolve g (if op.grid = g then d.apply op else d) ops

/-! ## specification of a round trip (decidable; evaluated by the driver on what the real
    reader returns for the real encoder's output) -/

/-- `b` is `a` started at another corner (same cyclic order, never reversed) -/
def isRotation (a b : List Int) : Bool :=
  a.length == b.length && (a.isEmpty || (List.range a.length).any (fun k => a.rotateLeft k == b))

/-- same faces in the same order -/
def sameFacesOrdered (orig got : List (List Int)) : Bool :=
  orig.length == got.length && (List.zip orig got).all (fun p => isRotation p.1 p.2)

/-- same faces as a multiset -/
def sameFacesMultiset (orig got : List (List Int)) : Bool :=
  orig.length == got.length &&
  (orig ++ got).all (fun f => orig.countP (isRotation f) == got.countP (isRotation f))

def RoundTripOK (f : Fmt) (orig got : List (List Int)) : Bool :=
  match f with
  | .exodus => sameFacesMultiset orig got
  | _ => sameFacesOrdered orig got

/-- which clauses fail (for replay files) -/
def failing (f : Fmt) (orig got : List (List Int)) : List String :=
  (if orig.length == got.length then [] else ["face_count"]) ++
  (if RoundTripOK f orig got then [] else
    [match f with | .exodus => "faces_multiset" | _ => "faces_in_order"])

/-- standard form (as in C02): width `w`, indices `< n` then only `FILL`, at least one corner -/
def StdRow (n w : Nat) (r : List Int) : Prop :=
  r.length = w ∧ 0 < (faceOf r).length ∧
  (∀ x ∈ faceOf r, 0 ≤ x ∧ x < n) ∧ (∀ x ∈ r.drop (faceOf r).length, x = FILL)

def StdForm (n w : Nat) (t : Table) : Prop := ∀ r ∈ t, StdRow n w r

instance (n w r) : Decidable (StdRow n w r) := by unfold StdRow; infer_instance
instance (n w t) : Decidable (StdForm n w t) := by unfold StdForm; infer_instance

end UxVerif.Encode
