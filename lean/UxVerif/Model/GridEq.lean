/-
  UxVerif.Model.GridEq — import-free executable model of `Grid.__eq__` / `Grid.__ne__`
  (uxarray/grid/grid.py) and the decidable specification of property C20.

  What the code does (transcribed below as `gridEq`, early returns kept):

      if not isinstance(other, Grid):                         return False
      if self.source_grid_spec != other.source_grid_spec:     return False
      if not (self.node_lon<.variable>.equals(other.node_lon<.variable>)
              <CONNECTIVE> self.node_lat<.variable>.equals(other.node_lat<.variable>)):   return False
      if not self.face_node_connectivity<.variable>.equals(other.face_node_connectivity<.variable>): return False
      return True
      __ne__ :  return not self.__eq__(other)

  Three versions are modelled:
  * `gridEq` — the REPAIRED algorithm: connective `and` (fixes/C20-eq-connective.patch) and
    comparison of the VARIABLES (fixes/C20-eq-compares-variables.patch).  `Variable.equals` on the
    grid's canonical dimension names is: same shape and, element by element,
    `(x == y) | (isnull x & isnull y)` — `arrEq valEq` (1-D, shape = length) and `connEq`
    (2-D shape + flat data).
  * `gridEqConnDA` — node variables compared, but `face_node_connectivity` with
    `DataArray.equals` again (a partial regression): every coordinate of the source dataset on
    `n_face` / `n_max_face_nodes` and every scalar coordinate leaks into `==`
    (`conn_coords_violate_spec`).
  * `gridEqCoords` — `and`, but `DataArray.equals`, which ALSO compares the xarray *coordinates*
    attached to the arrays (`cLon`, `cLat`, `cConn`: whatever coordinates of the source dataset
    live on a dimension of the variable, plus scalar coordinates).  Readers leave `node_lon`/`node_lat` either as plain data variables
    (no coordinates on them) or as coordinates of the dataset (Exodus reader, files that declare
    them as coordinates), in which case each of the two variables carries BOTH as coordinates:
    `cLon = cLat = [node_lon, node_lat]`.  `node_lon.equals` then also compares the latitudes and the flag itself — a
    grid detail the property does not mention (`coords_structure_violates_spec`).
  * `gridEqAsIs` — the snapshot: `DataArray.equals` joined with `or`.

  Floats are their IEEE-754 binary64 bit patterns (`Nat`), so that the element comparison is an
  exact integer-level definition about which everything is provable (no opaque `Float`):
  two non-NaN doubles compare equal iff their bit patterns are equal or both are a zero (±0).
  The driver cross-checks `ieeeEq`/`isNaN` against Lean's `Float` and the harness against NumPy.
-/
import UxVerif.Model.Basic

namespace UxVerif.GridEq

/-! ### IEEE-754 binary64 on bit patterns -/

def expBits (b : Nat) : Nat := (b / 2 ^ 52) % 2048
def manBits (b : Nat) : Nat := b % 2 ^ 52

/-- NaN: exponent all ones, mantissa non-zero. -/
def isNaN (b : Nat) : Bool := expBits b == 2047 && manBits b != 0
/-- `+0.0` or `-0.0`: everything below the sign bit is zero. -/
def isZero (b : Nat) : Bool := b % 2 ^ 63 == 0

/-- IEEE `x == y` on bit patterns. -/
def ieeeEq (x y : Nat) : Bool := !isNaN x && !isNaN y && (x == y || (isZero x && isZero y))

/-- element comparison of `DataArray.equals` (`array_equiv`): `(x == y) | (isnull x & isnull y)`. -/
def valEq (x y : Nat) : Bool := ieeeEq x y || (isNaN x && isNaN y)

/-- 1-D `array_equiv`: same length and element-wise `eq`; never raises on a length mismatch. -/
def arrEq {α : Type} (eq : α → α → Bool) : List α → List α → Bool
  | [], [] => true
  | x :: xs, y :: ys => eq x y && arrEq eq xs ys
  | _, _ => false

/-! ### grids as `__eq__` sees them -/

/-- an xarray coordinate attached to a compared variable: its name (code points) and its values
    (bit patterns of the values as doubles). -/
structure Coord where
  name : List Nat
  vals : List Nat
  deriving DecidableEq, Repr

/-- The four things `Grid.__eq__` reads (and the coordinates it must not read).  `spec` = code points of `repr(source_grid_spec)`,
    `lon`/`lat` = bit patterns of `node_lon`/`node_lat`, `conn` = `face_node_connectivity`
    of shape `(nFace, width)` flattened row-major (padding is the ordinary integer `FILL`). -/
structure Grid where
  spec : List Nat
  lon : List Nat
  lat : List Nat
  nFace : Nat
  width : Nat
  conn : List Int
  /-- xarray coordinates attached to `node_lon` (sorted by name): whatever coordinates of the
      source dataset live on `n_node`, plus scalar coordinates -/
  cLon : List Coord := []
  /-- … attached to `node_lat` -/
  cLat : List Coord := []
  /-- … attached to `face_node_connectivity` (coordinates on `n_face`, `n_max_face_nodes`, scalars) -/
  cConn : List Coord := []
  deriving DecidableEq, Repr

/-- shapes are consistent (what every real grid satisfies; used only by non-vacuity examples
    and by the driver's sanity command). -/
def Grid.wf (g : Grid) : Bool := g.lon.length == g.lat.length && g.conn.length == g.nFace * g.width

def intEq (x y : Int) : Bool := x == y

/-- comparison of the coordinates attached to two arrays by `DataArray.equals`: the same
    coordinate names with equal values (lists are sorted by name). -/
def coordEq (x y : Coord) : Bool := x.name == y.name && arrEq valEq x.vals y.vals
def coordsEq (xs ys : List Coord) : Bool := arrEq coordEq xs ys

/-- `self.node_lon.equals(other.node_lon)` (DataArray: values and coordinates) -/
def lonEqDA (a b : Grid) : Bool := arrEq valEq a.lon b.lon && coordsEq a.cLon b.cLon
/-- `self.node_lat.equals(other.node_lat)` (DataArray: values and coordinates) -/
def latEqDA (a b : Grid) : Bool := arrEq valEq a.lat b.lat && coordsEq a.cLat b.cLat
/-- `self.node_lon.variable.equals(other.node_lon.variable)` (Variable: dims, shape, values) -/
def lonEq (a b : Grid) : Bool := arrEq valEq a.lon b.lon
/-- `self.node_lat.variable.equals(other.node_lat.variable)` -/
def latEq (a b : Grid) : Bool := arrEq valEq a.lat b.lat
/-- `face_node_connectivity.equals`: same 2-D shape and same integers. -/
def connEq (a b : Grid) : Bool :=
  a.nFace == b.nFace && a.width == b.width && arrEq intEq a.conn b.conn

/-- **Impl (repaired)** — `Grid.__eq__` between two grids: `and`, variables compared. -/
def gridEq (a b : Grid) : Bool :=
  if a.spec != b.spec then false
  else if !(lonEq a b && latEq a b) then false
  else if !(connEq a b) then false
  else true

/-- `self.face_node_connectivity.equals(other.face_node_connectivity)` (DataArray) -/
def connEqDA (a b : Grid) : Bool := connEq a b && coordsEq a.cConn b.cConn

/-- **Impl before fixes/C20-eq-compares-variables.patch** — `and`, `DataArray.equals` on all
    three variables (coordinates compared too). -/
def gridEqCoords (a b : Grid) : Bool :=
  if a.spec != b.spec then false
  else if !(lonEqDA a b && latEqDA a b) then false
  else if !(connEqDA a b) then false
  else true

/-- a partial regression of that fix: node variables compared, connectivity as a DataArray. -/
def gridEqConnDA (a b : Grid) : Bool :=
  if a.spec != b.spec then false
  else if !(lonEq a b && latEq a b) then false
  else connEqDA a b

/-! ### backing state of the compared variables (numpy / dask)

  `Grid.chunk()`, `open_grid(chunks=…)` … turn the variables into dask arrays.  xarray's
  `array_equiv` first asks `lazy_array_equiv`: same object → True (the values are then trivially the
  same, not modelled separately); different shapes → False; BOTH dask arrays with the SAME graph
  name (dask token) → True *without looking at the values*; otherwise the values are compared.
  The backing is therefore an input of what the code does — and the property holds only as long as
  it cannot influence the result, i.e. as long as dask names are derived from the contents
  (`namesFaithful`).  `Props/C20.lean`: `backing_irrelevant`, `eqB_values_only`,
  `unfaithful_names_break`. -/

inductive Backing where
  | numpy
  /-- dask array: graph name (hashed to a number by the harness) and chunk sizes along axis 0 -/
  | dask (name : Nat) (chunks : List Nat)
  deriving DecidableEq, Repr

/-- `lazy_array_equiv` after the identity and shape tests: `some true` when both are dask arrays
    with the same name, `none` (= compare the values) otherwise. -/
def lazyEquiv : Backing → Backing → Option Bool
  | .dask n _, .dask m _ => if n = m then some true else none
  | _, _ => none

/-- `array_equiv` of one variable: shape test, lazy shortcut, else the value comparison. -/
def varEqB (shapeEq : Bool) (ba bb : Backing) (valueEq : Bool) : Bool :=
  if !shapeEq then false
  else match lazyEquiv ba bb with
    | some r => r
    | none => valueEq

/-- a grid together with how its three compared variables are held -/
structure BGrid where
  g : Grid
  bLon : Backing := .numpy
  bLat : Backing := .numpy
  bConn : Backing := .numpy
  deriving Repr

def lonShapeEq (a b : Grid) : Bool := a.lon.length == b.lon.length
def latShapeEq (a b : Grid) : Bool := a.lat.length == b.lat.length
def connShapeEq (a b : Grid) : Bool :=
  a.nFace == b.nFace && a.width == b.width && a.conn.length == b.conn.length

def lonEqB (a b : BGrid) : Bool :=
  varEqB (lonShapeEq a.g b.g) a.bLon b.bLon (arrEq valEq a.g.lon b.g.lon)
def latEqB (a b : BGrid) : Bool :=
  varEqB (latShapeEq a.g b.g) a.bLat b.bLat (arrEq valEq a.g.lat b.g.lat)
def connEqB (a b : BGrid) : Bool :=
  varEqB (connShapeEq a.g b.g) a.bConn b.bConn (connEq a.g b.g)

/-- **Impl with backing** — `Grid.__eq__` (repaired connective) as xarray evaluates it on
    numpy- or dask-backed variables. -/
def gridEqB (a b : BGrid) : Bool :=
  if a.g.spec != b.g.spec then false
  else if !(lonEqB a b && latEqB a b) then false
  else if !(connEqB a b) then false
  else true

/-- one variable: equal dask names (and equal shapes) only on equal values -/
def faithful1 (shapeEq : Bool) (ba bb : Backing) (valueEq : Bool) : Bool :=
  match lazyEquiv ba bb with
  | some _ => !shapeEq || valueEq
  | none => true

/-- **dask names are faithful** for this pair: whenever two compared variables carry the same
    dask name (and shape) their values are equal.  Decidable; the driver evaluates it on the names
    and values observed on the real grids. -/
def namesFaithful (a b : BGrid) : Bool :=
  faithful1 (lonShapeEq a.g b.g) a.bLon b.bLon (arrEq valEq a.g.lon b.g.lon) &&
  faithful1 (latShapeEq a.g b.g) a.bLat b.bLat (arrEq valEq a.g.lat b.g.lat) &&
  faithful1 (connShapeEq a.g b.g) a.bConn b.bConn (connEq a.g b.g)

def Backing.kind : Backing → String
  | .numpy => "numpy"
  | .dask _ _ => "dask"

def BGrid.kind (a : BGrid) : String :=
  if a.bLon.kind == a.bLat.kind && a.bLat.kind == a.bConn.kind then a.bLon.kind else "mixed"

/-- **Impl as it stands in the snapshot** — `or` between the two `DataArray.equals` calls. -/
def gridEqAsIs (a b : Grid) : Bool :=
  if a.spec != b.spec then false
  else if !(lonEqDA a b || latEqDA a b) then false
  else if !(connEqDA a b) then false
  else true

/-- a *projection-comparing* variant (NOT what the code does; kept as the model of a plausible
    rewrite): coordinates and connectivity compared as flattened sequences only, the 2-D shape
    `(nFace, width)` dropped.  `Props/C20.lean: flatten_blind_wrong`. -/
def gridEqFlat (a b : Grid) : Bool :=
  if a.spec != b.spec then false
  else if !(lonEq a b && latEq a b) then false
  else if !(arrEq intEq a.conn b.conn) then false
  else true

/-! ### from the SOURCE description to the stored table (`_process_connectivity`)

  `Grid.__eq__` compares stored tables; the property speaks about the grids' connectivity, i.e.
  about what the user handed in.  The link is the reader: `from_topology` (and the UGRID reader
  through the same `_replace_fill_values`) turns a source table written in a dialect
  `(fill value, start index)` into the stored table: entries equal to the dialect's fill value
  become `FILL`, every other entry is shifted by the start index.  For `==` to distinguish source
  descriptions this map must be INJECTIVE on valid source tables (C01 proves the round trips
  `UxVerif.C01.topology_roundtrip`, `ugrid_roundtrip` and `pad_inj`, from which injectivity
  follows; the entry-level statement needed here is re-proved in Props/C20.lean:
  `procTable_inj`, `source_change_detected`). -/

/-- one entry: `fill = none` — no padding in use. -/
def procEntry (fill : Option Int) (start : Int) (x : Int) : Int :=
  match fill with
  | none => x - start
  | some f =>
    let y := if f ≠ FILL ∧ x = f then FILL else x
    if y ≠ FILL then y - start else FILL

def procTable (fill : Option Int) (start : Int) (t : Table) : Table := t.map (·.map (procEntry fill start))

/-- a source entry is the dialect's fill value, or a real index that is neither the fill value nor
    (before / after the shift) the standard fill value. -/
def validEntry (fill : Option Int) (start : Int) (x : Int) : Bool :=
  match fill with
  | none => true
  | some f => x == f || (x != FILL && x - start != FILL)

def validTable (fill : Option Int) (start : Int) (t : Table) : Bool := t.all (·.all (validEntry fill start))

/-- a *tolerant* fill test (NOT what the code does; model of `np.isclose(x, fill)`): everything
    within `tol` of the fill value is treated as padding.  `Props/C20.lean: tolerant_fill_not_injective`. -/
def procEntryTol (tol : Int) (f : Int) (start : Int) (x : Int) : Int :=
  let y := if f ≠ FILL ∧ (x - f).natAbs ≤ tol.toNat then FILL else x
  if y ≠ FILL then y - start else FILL

/-- failing clauses for a pair of SOURCE descriptions with the same coordinates and dialect:
    the stored tables must be what the reader model gives (`reader_corresponds`), and `==` must be
    True iff the source tables are the same (`eq_iff_same_source`), `!=` its negation. -/
def sourceFailing (fill : Option Int) (start : Int) (tA tB sA sB : Table)
    (e1 n1 e2 n2 : Bool) : List String :=
  (if sA = procTable fill start tA ∧ sB = procTable fill start tB then [] else ["reader_corresponds"]) ++
  (if (decide (sA = sB)) == (decide (tA = tB)) then [] else ["reader_injective_on_connectivity"]) ++
  (if e1 == decide (tA = tB) ∧ e2 == decide (tA = tB) then [] else
      [if e1 || e2 then "eq_implies_same_source" else "same_source_implies_eq"]) ++
  (if n1 == !e1 ∧ n2 == !e2 then [] else ["ne_is_negation"]) ++
  (if e1 == e2 then [] else ["eq_symm"])

/-! ### which node-coordinate representation a grid has STORED

  A grid built from Cartesian vertices (`from_face_vertices(latlon=False)`) stores only
  `node_x/y/z`; `node_lon`/`node_lat` are derived (and cached) the first time they are read —
  which `Grid.__eq__` does through the `node_lon` / `node_lat` properties.  So `==` compares the
  longitude / latitude VALUES whatever is stored; the stored representation (and the history of
  which attributes were read before) is not an input. -/

structure SGrid where
  g : Grid
  /-- `node_lon`/`node_lat` are already stored -/
  hasLL : Bool := true
  /-- `node_x`/`node_y`/`node_z` are already stored -/
  hasXYZ : Bool := false

/-- `Grid.__eq__` on grids in any storage state: reads the `node_lon`/`node_lat` properties. -/
def gridEqS (a b : SGrid) : Bool := gridEq a.g b.g

/-- a *common-subset* comparison (NOT what the code does): each node-coordinate representation is
    compared only when BOTH grids already store it (`xyzEq` = outcome of comparing the stored
    Cartesian arrays).  `Props/C20.lean: common_subset_wrong`. -/
def gridEqCommon (xyzEq : Bool) (a b : SGrid) : Bool :=
  if a.g.spec != b.g.spec then false
  else if a.hasLL && b.hasLL && !(lonEq a.g b.g && latEq a.g b.g) then false
  else if a.hasXYZ && b.hasXYZ && !xyzEq then false
  else if !(connEq a.g b.g) then false
  else true

/-- right operand of `==`: a grid or anything else (the tag only names the kind of object). -/
inductive Obj where
  | grid (g : Grid)
  | other (tag : Nat)

/-- `self.__eq__(other)` -/
def pyEq (a : Grid) : Obj → Bool
  | .grid b => gridEq a b
  | .other _ => false

/-- `self.__ne__(other)` = `not self.__eq__(other)` -/
def pyNe (a : Grid) (o : Obj) : Bool := !pyEq a o

/-- `Grid.copy()` as `__eq__` sees it: a new grid object over the same variables and spec. -/
def copy (a : Grid) : Grid :=
  { spec := a.spec, lon := a.lon, lat := a.lat, nFace := a.nFace, width := a.width, conn := a.conn,
    cLon := a.cLon, cLat := a.cLat, cConn := a.cConn }

/-! ### decidable specification (stated independently of the early-return chain) -/

/-- "same format, identical node longitudes, node latitudes and face-node connectivity" -/
def sameB (a b : Grid) : Bool :=
  decide (a.spec = b.spec) && arrEq valEq a.lon b.lon && arrEq valEq a.lat b.lat &&
    decide (a.nFace = b.nFace) && decide (a.width = b.width) && decide (a.conn = b.conn)

/-- checker of `Spec a b eqOut neOut` (Props/C20.lean proves the reflection). -/
def specB (a b : Grid) (eqOut neOut : Bool) : Bool := (eqOut == sameB a b) && (neOut == !eqOut)

/-- the coordinates attached to the three compared variables are the same on both sides -/
def sameCoords (a b : Grid) : Bool :=
  coordsEq a.cLon b.cLon && coordsEq a.cLat b.cLat && coordsEq a.cConn b.cConn

/-- names of the fields in which two grids differ (for signatures and the evidence). -/
def differing (a b : Grid) : List String :=
  (if a.spec = b.spec then [] else ["spec"]) ++
  (if a.lon.length ≠ b.lon.length ∨ a.lat.length ≠ b.lat.length then ["n_node"] else
    (if arrEq valEq a.lon b.lon then [] else ["lon"]) ++
    (if arrEq valEq a.lat b.lat then [] else ["lat"])) ++
  (if a.nFace = b.nFace then [] else ["n_face"]) ++
  (if a.width = b.width then [] else ["width"]) ++
  (if a.nFace = b.nFace ∧ a.width = b.width ∧ a.conn ≠ b.conn then ["conn"] else [])

/-- failing clauses of the pair specification on observed outputs of `a == b`, `a != b`. -/
def failing (a b : Grid) (eqOut neOut : Bool) : List String :=
  (if eqOut == sameB a b then [] else
      [if eqOut then "eq_implies_same" else "same_implies_eq"]) ++
  (if neOut == !eqOut then [] else ["ne_is_negation"])

/-! observed-output laws named by the property (each judged by the driver) -/
/-- `g == g` is True and `g != g` is False -/
def reflOK (eqOut neOut : Bool) : Bool := eqOut && !neOut
/-- `a == b` and `b == a` agree -/
def symmOK (eqAB eqBA : Bool) : Bool := eqAB == eqBA
/-- `g == g.copy()`, `g.copy() == g` are True, the `!=` are False -/
def copyOK (eqGC neGC eqCG neCG : Bool) : Bool := eqGC && !neGC && eqCG && !neCG
/-- `g == <non-Grid>` is False and `g != <non-Grid>` is True -/
def nonGridOK (eqOut neOut : Bool) : Bool := !eqOut && neOut

end UxVerif.GridEq
