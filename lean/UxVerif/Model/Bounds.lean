/-
  UxVerif.Model.Bounds — C13: face latitude–longitude bounds.

  Transcription of `uxarray/grid/geometry.py`
    * `_get_latlonbox_width`, `_insert_pt_in_latlonbox`            (§1  `lonWidth`, `growLon`, `insertPt`)
    * `_populate_face_latlon_bound` normal and pole branches       (§2  `stepNormal*`, `stepPole*`, `runFace`)
    * `_classify_polygon_location`, `_check_intersection`,
      `_pole_point_inside_polygon`                                 (§4  `location`, `checkInt`, `poleInside`)
  and of `uxarray/grid/arcs.py::extreme_gca_latitude`              (§3  `dAMax`, `extremeLat`).

  Everything is generic over the scalar type `K` (ordered by `<`/`≤` with decidable comparisons)
  and over the transcendental functions (`Fn K`), so the same definitions
    * run at `Float` in the driver (correspondence with `Grid.bounds`),
    * are decided at `Int` for the as-is counterexamples,
    * are reasoned about over every linearly ordered field / over `ℝ` in `Props/C13.lean`.

  Two variants of the two loops are transcribed:
    * `Variant.asIs`     — the code of the pinned snapshot: the normal-face loop inserts, per edge,
                           EITHER the arc maximum OR the arc minimum OR the first corner
                           (`if / elif / else`); the pole loop inserts the pole corner's nominal
                           longitude.
    * `Variant.repaired` — `fixes/C13-*.patch`: the pole test is the winding of the boundary about the
                           polar axis instead of a crossing parity; the normal loop inserts the corner AND both arc
                           extremes; a face with a corner on a pole always takes the pole loop, and
                           the pole loop replaces the (meaningless) longitude of a corner that sits
                           on the pole by the longitude of the edge's other end.

  §5 is the independent oracle used by the driver to judge the implementation's output
  (sampling of every edge + analytic apex, never calling §3).
  Core Lean only.
-/
namespace UxVerif.Bounds

structure V3 (K : Type) where
  x : K
  y : K
  z : K
deriving Repr

/-! ## 1. The box and the insertion of one point -/

/-- what `_insert_pt_in_latlonbox` receives: `[lat, lon]`, or a pole point `[±π/2, FILL]` -/
inductive Pt (K : Type) where
  | at (lat lon : K)
  | pole (north : Bool)

/-- `[[lat_min, lat_max], [lon_min, lon_max]]`; `none` = the row is still `[FILL, FILL]` -/
structure Box (K : Type) where
  lat : Option (K × K)
  lon : Option (K × K)

def Box.empty {K : Type} : Box K := ⟨none, none⟩

/-- the constants and the longitude normalisation (`np.mod(·, 2π)`) the code uses -/
structure Consts (K : Type) where
  halfPi : K
  twoPi : K
  norm : K → K

section order
variable {K : Type} [LT K] [LE K] [DecidableLT K] [DecidableLE K]

/-- Python's `min(a, b)` -/
def minK (a b : K) : K := if b < a then b else a
/-- Python's `max(a, b)` -/
def maxK (a b : K) : K := if a < b then b else a

/-- membership in a longitude interval that wraps through 0 when `lo > hi` -/
def InLon (lo hi x : K) : Prop := if lo ≤ hi then lo ≤ x ∧ x ≤ hi else lo ≤ x ∨ x ≤ hi

instance (lo hi x : K) : Decidable (InLon lo hi x) := by unfold InLon; infer_instance

def InLat (lo hi x : K) : Prop := lo ≤ x ∧ x ≤ hi

instance (lo hi x : K) : Decidable (InLat lo hi x) := by unfold InLat; infer_instance

/-- the test of `_insert_pt_in_latlonbox` (geometry.py:947-953): the point is outside the
    current (possibly wrapping) interval -/
def lonOutside (lo hi x : K) : Bool :=
  (decide (hi < lo) && (decide (x < lo) && decide (hi < x))) ||
  (decide (lo ≤ hi) && !(decide (lo ≤ x) && decide (x ≤ hi)))

def growLat : Option (K × K) → K → K × K
  | none, x => (x, x)
  | some (lo, hi), x => (minK lo x, maxK hi x)

variable [Add K] [Sub K]

/-- `_get_latlonbox_width` -/
def lonWidth (twoPi lo hi : K) : K := if lo ≤ hi then hi - lo else twoPi - lo + hi

/-- periodic growth of the longitude interval: when the point is outside, replace the left or the
    right end, whichever gives the narrower interval (ties → right end) -/
def growLon (twoPi : K) : Option (K × K) → K → K × K
  | none, x => (x, x)
  | some (lo, hi), x =>
    if lonOutside lo hi x then
      if lonWidth twoPi x hi < lonWidth twoPi lo x then (x, hi) else (lo, x)
    else (lo, hi)

variable [Neg K]

/-- `_insert_pt_in_latlonbox(old_box, new_pt)` (periodic) -/
def insertPt (c : Consts K) (b : Box K) : Pt K → Box K
  | .pole north =>
    match b.lat with
    | none => let p := if north then c.halfPi else -c.halfPi
              { b with lat := some (p, p) }
    | some (lo, hi) => { b with lat := some (if north then (lo, c.halfPi) else (-c.halfPi, hi)) }
  | .at la lo => { lat := some (growLat b.lat la), lon := some (growLon c.twoPi b.lon (c.norm lo)) }

/-- `face_latlon_array[0][1] = v` -/
def Box.setHi (b : Box K) (v : K) : Box K := { b with lat := b.lat.map fun p => (p.1, v) }
/-- `face_latlon_array[0][0] = v` -/
def Box.setLo (b : Box K) (v : K) : Box K := { b with lat := b.lat.map fun p => (v, p.2) }

/-- the point `(lat, lon)` is inside the box (longitude already normalised) -/
def Box.Has (b : Box K) (la lo : K) : Prop :=
  (∃ p, b.lat = some p ∧ InLat p.1 p.2 la) ∧ (∃ q, b.lon = some q ∧ InLon q.1 q.2 lo)

def Box.HasLat (b : Box K) (la : K) : Prop := ∃ p, b.lat = some p ∧ InLat p.1 p.2 la
def Box.HasLon (b : Box K) (lo : K) : Prop := ∃ q, b.lon = some q ∧ InLon q.1 q.2 lo

/-! ## 2. The per-edge loops of `_populate_face_latlon_bound`

  The loops only look at a summary of each edge: the first corner's latitude / longitude, the
  second corner's latitude / longitude, the two arc extremes, and (pole branch) whether the first
  corner is the pole / the pole lies on the edge. -/

structure ES (K : Type) where
  lat1 : K
  lon1 : K
  lat2 : K
  lon2 : K
  mx : K            -- extreme_gca_latitude(edge, "max")
  mn : K            -- extreme_gca_latitude(edge, "min")
  n1Pole : Bool     -- allclose(n1_cart, pole_point)
  onEdge : Bool     -- point_within_gca(pole_point, edge)

inductive Variant | asIs | repaired
deriving DecidableEq, Repr

/-- AS-IS normal-face step (geometry.py:1160-1179): exactly one of three points is inserted -/
def stepNormalAsIs (c : Consts K) (close : K → K → Bool) (b : Box K) (e : ES K) : Box K :=
  if !close e.lat1 e.mx && !close e.lat2 e.mx then insertPt c b (.at e.mx e.lon1)
  else if !close e.lat1 e.mn && !close e.lat2 e.mn then insertPt c b (.at e.mn e.lon1)
  else insertPt c b (.at e.lat1 e.lon1)

/-- REPAIRED normal-face step: the corner and both extremes -/
def stepNormal (c : Consts K) (b : Box K) (e : ES K) : Box K :=
  insertPt c (insertPt c (insertPt c b (.at e.lat1 e.lon1)) (.at e.mx e.lon1)) (.at e.mn e.lon1)

def normalLoop (c : Consts K) (close : K → K → Bool) : Variant → List (ES K) → Box K
  | .asIs, es => es.foldl (stepNormalAsIs c close) Box.empty
  | .repaired, es => es.foldl (stepNormal c) Box.empty

/-- one iteration of the pole branch (geometry.py:1059-1119); the state is the box and
    `is_center_pole`.  `lonOf` is the longitude used for the first corner: its own (as-is), or —
    repaired — the other end's longitude when the first corner sits on the pole. -/
def stepPole (c : Consts K) (v : Variant) (north : Bool) (st : Box K × Bool) (e : ES K) :
    Box K × Bool :=
  let touch := e.n1Pole || e.onEdge
  let b := if touch then insertPt c st.1 (.pole north) else st.1
  let centre := if touch then false else st.2
  let lon1 := match v with
    | .asIs => e.lon1
    | .repaired => if e.n1Pole then e.lon2 else e.lon1
  let b := insertPt c b (.at e.lat1 lon1)
  let b := if north then (insertPt c b (.at e.mn lon1)).setHi c.halfPi
           else (insertPt c b (.at e.mx lon1)).setLo (-c.halfPi)
  (b, centre)

variable [OfNat K 0]

def poleLoop (c : Consts K) (v : Variant) (north : Bool) (es : List (ES K)) : Box K :=
  let r := es.foldl (stepPole c v north) (Box.empty, true)
  if r.2 then { r.1 with lon := some (0, c.twoPi) } else r.1

/-- `_populate_face_latlon_bound` given the two pole flags -/
def runFace (c : Consts K) (close : K → K → Bool) (v : Variant) (hasN hasS : Bool)
    (es : List (ES K)) : Box K :=
  if hasN || hasS then poleLoop c v hasN es else normalLoop c close v es

end order

/-! ## 3. `extreme_gca_latitude` -/

/-- the functions of the numeric runtime the code calls -/
structure Fn (K : Type) where
  sqrt : K → K
  asin : K → K
  abs : K → K
  /-- `isclose(a, b, atol=ERROR_TOLERANCE)` (rtol keeps numpy's default 1e-5) -/
  close : K → K → Bool
  /-- `ERROR_TOLERANCE` -/
  tol : K
  /-- absolute tolerance standing for the `MACHINE_EPSILON` plane / range tests of
      `point_within_gca` (idealised, see §4) -/
  eps : K
  /-- `v / ‖v‖` (the identity when the model is run on exact direction vectors) -/
  normalize : V3 K → V3 K
  /-- `allclose(p, q, atol=ERROR_TOLERANCE)` on Cartesian triples (on exact direction vectors:
      same direction) -/
  samePt : V3 K → V3 K → Bool
  /-- the test of `_unique_points`: Euclidean distance over the norm of the second point below
      `ERROR_TOLERANCE` (on exact direction vectors: same direction) -/
  nearPt : V3 K → V3 K → Bool
  /-- `np.arctan2(y, x)` -/
  atan2 : K → K → K
  /-- `np.pi` -/
  pi : K

section geom
variable {K : Type} [Add K] [Sub K] [Mul K] [Div K] [Neg K] [OfNat K 0] [OfNat K 1]

def dot (a b : V3 K) : K := a.x * b.x + a.y * b.y + a.z * b.z
def cross (a b : V3 K) : V3 K :=
  ⟨a.y * b.z - a.z * b.y, a.z * b.x - a.x * b.z, a.x * b.y - a.y * b.x⟩
def vneg (a : V3 K) : V3 K := ⟨-a.x, -a.y, -a.z⟩
def smul (k : K) (a : V3 K) : V3 K := ⟨k * a.x, k * a.y, k * a.z⟩
def vadd (a b : V3 K) : V3 K := ⟨a.x + b.x, a.y + b.y, a.z + b.z⟩
def vsub (a b : V3 K) : V3 K := ⟨a.x - b.x, a.y - b.y, a.z - b.z⟩

/-- the chord point `(1 − t)·a + t·b` -/
def chord (a b : V3 K) (t : K) : V3 K := vadd (smul (1 - t) a) (smul t b)

/-- `d_a_max` (arcs.py:338-340) -/
def dAMax (a b : V3 K) : K :=
  let d := dot a b
  (a.z * d - b.z) / ((a.z + b.z) * (d - 1))

variable [LT K] [LE K] [DecidableLT K] [DecidableLE K]

def clipK (x lo hi : K) : K := if x < lo then lo else if hi < x then hi else x

/-- latitude returned by `_xyz_to_lonlat_rad_scalar(…, normalize=True)` (coordinates.py:98-114,
    including the snap of `|z| > 1 − ERROR_TOLERANCE` to the pole) -/
def latOfN (F : Fn K) (halfPi : K) (v : V3 K) : K :=
  let n := F.sqrt (dot v v)
  let x := v.x / n
  let y := v.y / n
  let z := v.z / n
  let den := F.abs (x * x + y * y + z * z)
  let z := z / den
  if 1 - F.tol < F.abs z then (if z < 0 then -halfPi else halfPi) else F.asin z

def max3 (a b c : K) : K := maxK (maxK a b) c
def min3 (a b c : K) : K := minK (minK a b) c

/-- `extreme_gca_latitude(gca_cart, "max" | "min")` -/
def extremeLat (F : Fn K) (halfPi : K) (isMax : Bool) (a b : V3 K) : K :=
  let t0 := dAMax a b
  let t := if F.close t0 0 || F.close t0 1 then clipK t0 0 1 else t0
  let l1 := latOfN F halfPi a
  let l2 := latOfN F halfPi b
  if 0 < t ∧ t < 1 then
    let p := chord a b t
    let n := F.sqrt (dot p p)
    let dl := F.asin (clipK (p.z / n) (-1) 1)
    if isMax then max3 dl l1 l2 else min3 dl l1 l2
  else if isMax then maxK l1 l2 else minK l1 l2

/-! ## 4. Pole-in-polygon parity (`_pole_point_inside_polygon`)

  `gca_gca_intersection` / `point_within_gca` are idealised: the two antipodal directions common
  to both great circles, kept when they lie between the end points of both arcs (sign tests with
  the absolute slack `F.eps`).  Their float behaviour is property C14's subject; here only the
  counting logic built on top of them matters. -/

structure Edge (K : Type) where
  a : V3 K
  b : V3 K
  lon1 : K
  lat1 : K
  lon2 : K
  lat2 : K

/-- the float instance of `Fn.normalize` -/
def normalizeBy (sqrt : K → K) (v : V3 K) : V3 K :=
  let n := sqrt (dot v v)
  ⟨v.x / n, v.y / n, v.z / n⟩

/-- the float instance of `Fn.nearPt` -/
def nearPtBy (sqrt : K → K) [LT K] [DecidableLT K] (tol : K) (p q : V3 K) : Bool :=
  decide (sqrt (dot (vsub p q) (vsub p q)) / sqrt (dot q q) < tol)

/-- the float instance of `Fn.samePt`: componentwise `isclose` (numpy's default rtol inside `close`) -/
def samePtBy (close : K → K → Bool) (p q : V3 K) : Bool :=
  close p.x q.x && close p.y q.y && close p.z q.z

/-- `p` (on the great circle of `a,b`) lies between `a` and `b` -/
def between (F : Fn K) (a b p : V3 K) : Bool :=
  let n := cross a b
  -- the slack is relative to the arc (both sides scale with ‖a × b‖²): edges of any length
  let slack := F.eps * dot n n
  decide (-slack ≤ dot (cross a p) n) && decide (-slack ≤ dot (cross p b) n)

/-- `point_within_gca(p, [a, b])` (undirected): the sine of the angle between `p` and the plane of the
    arc is at most `ERROR_TOLERANCE`, and `p` is behind neither end point (exact `≥ 0` tests) -/
def onGca (F : Fn K) (a b p : V3 K) : Bool :=
  let n := cross a b
  decide (F.abs (dot n p) ≤ F.tol * F.sqrt (dot n n) * F.sqrt (dot p p)) &&
  decide (0 ≤ dot (cross a p) n) && decide (0 ≤ dot (cross p b) n)

/-- `gca_gca_intersection(ref, edge)` -/
def arcMeet (F : Fn K) (w0 w1 v0 v1 : V3 K) : List (V3 K) :=
  let nw := cross w0 w1
  let nv := cross v0 v1
  let c := cross nw nv
  let par := F.eps * F.sqrt (dot nw nw * dot nv nv)     -- relative: the two planes coincide
  if F.abs c.x ≤ par ∧ F.abs c.y ≤ par ∧ F.abs c.z ≤ par then
    (if onGca F w0 w1 v0 then [v0] else []) ++ (if onGca F w0 w1 v1 then [v1] else [])
  else
    let x1 := F.normalize c
    let x2 := vneg x1
    (if between F w0 w1 x1 && between F v0 v1 x1 then [x1] else []) ++
    (if between F w0 w1 x2 && between F v0 v1 x2 then [x2] else [])

/-- `_unique_points` -/
def uniquePts (F : Fn K) : List (V3 K) → List (V3 K)
  | [] => []
  | p :: ps => let r := uniquePts F ps
               if r.any (F.nearPt p) then r else p :: r

/-- `_check_intersection(ref_edge, edges)`; `True` is returned as `1` -/
def checkInt (F : Fn K) (pole ref : V3 K) (edges : List (Edge K)) : Nat :=
  let pts := edges.flatMap fun e => arcMeet F pole ref e.a e.b
  if pts.any (fun p => F.samePt p pole) then 1
  else
    let u := uniquePts F pts
    match u with
    | [p] => if edges.any (fun e => F.samePt p e.a || F.samePt p e.b) then 0 else 1
    | _ => u.length

inductive Loc | north | south | equator
deriving DecidableEq, Repr

/-- `_classify_polygon_location` -/
def location (edges : List (Edge K)) : Loc :=
  if edges.all (fun e => decide (0 < e.a.z) && decide (0 < e.b.z)) then .north
  else if edges.all (fun e => decide (e.a.z < 0) && decide (e.b.z < 0)) then .south
  else .equator

def poleVec (north : Bool) : V3 K := ⟨0, 0, if north then 1 else -1⟩
def refPoint : V3 K := ⟨1, 0, 0⟩

/-- AS-IS `_pole_point_inside_polygon(pole, face_edge_cart)`: parity of the crossings of a reference arc -/
def poleInside (F : Fn K) (north : Bool) (edges : List (Edge K)) : Bool :=
  let pole : V3 K := poleVec north
  match location edges, north with
  | .north, true | .south, false => checkInt F pole refPoint edges % 2 != 0
  | .equator, _ =>
    -- "north_edges": any end point with z > 0; the rest are the "south_edges"
    let ne := edges.filter fun e => decide (0 < e.a.z) || decide (0 < e.b.z)
    let se := edges.filter fun e => !(decide (0 < e.a.z) || decide (0 < e.b.z))
    (checkInt F pole refPoint ne + checkInt F (vneg pole) refPoint se) % 2 != 0
  | _, _ => false

/-- edge summary consumed by the loops; `north` selects the pole of the pole branch -/
def summ (F : Fn K) (halfPi : K) (north : Bool) (e : Edge K) : ES K :=
  let pole : V3 K := poleVec north
  { lat1 := e.lat1, lon1 := e.lon1, lat2 := e.lat2, lon2 := e.lon2,
    mx := extremeLat F halfPi true e.a e.b, mn := extremeLat F halfPi false e.a e.b,
    n1Pole := F.samePt e.a pole, onEdge := onGca F e.a e.b pole }

/-! ### REPAIRED pole test: winding of the boundary about the polar axis
  (`fixes/C13-pole-winding.patch`; the parity count above stays as the AS-IS transcription) -/

/-- signed longitude increment along the arc `a → b` (shorter than half a turn, missing the axis):
    the angle between the horizontal projections of the end points, in `(−π, π]` -/
def lonIncrement (F : Fn K) (a b : V3 K) : K :=
  F.atan2 (a.x * b.y - a.y * b.x) (a.x * b.x + a.y * b.y)

/-- the point lies on the polar axis (within `ERROR_TOLERANCE`): a node on a pole -/
def onAxis (F : Fn K) (a : V3 K) : Bool := decide (F.sqrt (a.x * a.x + a.y * a.y) ≤ F.tol)

/-- sum of the longitude increments of the edges; an edge that ends on the axis has none -/
def winding (F : Fn K) (edges : List (Edge K)) : K :=
  edges.foldl (fun s e => s + (if onAxis F e.a || onAxis F e.b then 0 else lonIncrement F e.a e.b)) 0

/-- the corners are listed counter-clockwise seen from outside: the area vector `Σ aᵢ × bᵢ` points
    to the same side as the corner sum -/
def isCcw (edges : List (Edge K)) : Bool :=
  let A := edges.foldl (fun s e => vadd s (cross e.a e.b)) (⟨0, 0, 0⟩ : V3 K)
  let M := edges.foldl (fun s e => vadd s e.a) (⟨0, 0, 0⟩ : V3 K)
  decide (0 < dot A M)

/-- some edge starts on the pole or passes through it (then the pole counts as inside) -/
def touchesPole (F : Fn K) (north : Bool) (edges : List (Edge K)) : Bool :=
  edges.any fun e => F.samePt e.a (poleVec north) || onGca F e.a e.b (poleVec north)

/-- REPAIRED `_pole_point_inside_polygon(pole, face_edge_cart)`: pole on the boundary, or the
    boundary winds once about the axis and the orientation says it is this pole -/
def poleInsideWinding (F : Fn K) (north : Bool) (edges : List (Edge K)) : Bool :=
  if touchesPole F north edges then true
  else
    let w := winding F edges
    if F.abs w < F.pi then false
    else (decide (0 < w) == isCcw edges) == north

/-- the two pole flags of `_populate_face_latlon_bound`: as-is the parity count; repaired the winding
    test, and also "some corner sits on that pole" -/
def poleFlags (F : Fn K) (v : Variant) (edges : List (Edge K)) : Bool × Bool :=
  match v with
  | .asIs => (poleInside F true edges, poleInside F false edges)
  | .repaired =>
    let corner (north : Bool) : Bool := edges.any fun e => F.samePt e.a (poleVec north)
    (poleInsideWinding F true edges || corner true, poleInsideWinding F false edges || corner false)

/-- `_populate_face_latlon_bound(face_edges_cartesian, face_edges_lonlat_rad)` with the defaults
    of `Grid.bounds` (every edge a great-circle arc) -/
def faceBounds (c : Consts K) (F : Fn K) (v : Variant) (edges : List (Edge K)) : Box K :=
  let fl := poleFlags F v edges
  runFace c F.close v fl.1 fl.2 (edges.map (summ F c.halfPi fl.1))

end geom

/-! ## 5. The decidable specification evaluated on the implementation's output (at `Float`)

  Independent of §3/§4: every edge is sampled at `k+1` chord parameters (normalised onto the
  sphere), the analytic apex / nadir of the edge's great circle (projection of the polar axis on
  the plane of the arc) is added when it lies strictly inside the arc, and the reported box is
  compared with what these boundary points need.

  Clauses (bit numbers of the result of `specFails`):
    0  latitude enclosure     every boundary point has `lat_min − tol ≤ lat ≤ lat_max + tol`
    1  longitude enclosure    every boundary point (off the pole) lies in the longitude interval
    2  enclosed pole          pole strictly inside ⇒ that pole's latitude and `[0, 2π]`
    3  latitude tightness     `lat_min` and `lat_max` are attained by a boundary point / the enclosed pole
    4  longitude tightness    no pole enclosed ⇒ the interval is the shortest one covering the
                              corners' longitudes (longitude is monotone along an arc that misses
                              the poles, so the corners span the boundary)
-/
namespace Oracle

abbrev P3 := V3 Float

def pi : Float := 3.141592653589793
def halfPi : Float := 1.5707963267948966
def twoPi : Float := 6.283185307179586

def unit (v : P3) : P3 := let n := Float.sqrt (dot v v); ⟨v.x / n, v.y / n, v.z / n⟩
/-- latitude by `atan2(z, √(x²+y²))`: well-conditioned at the poles (unlike `asin z`) -/
def latOf (p : P3) : Float := Float.atan2 p.z (Float.sqrt (p.x * p.x + p.y * p.y))
/-- longitude in `[0, 2π)` -/
def lonOf (p : P3) : Float :=
  let l := Float.atan2 p.y p.x
  if l < 0 then l + twoPi else l

def cyc {α} : List α → List (α × α)
  | [] => []
  | a :: as => (a :: as).zip (as ++ [a])

/-- `k+1` points of the arc `a → b`, end points included -/
def arcSamples (k : Nat) (a b : P3) : List P3 :=
  (List.range (k + 1)).map fun j =>
    let t := j.toFloat / k.toFloat
    unit (chord a b t)

/-- north-most and south-most point of the arc's great circle, kept when strictly inside the arc -/
def arcApex (a b : P3) : List P3 :=
  -- plane normal as `a × (b − a)`: no cancellation for arcs of any length (down to sub-metre edges)
  let n0 := cross a (vsub b a)
  let nn := Float.sqrt (dot n0 n0)
  if nn == 0 then [] else
  let n : P3 := ⟨n0.x / nn, n0.y / nn, n0.z / nn⟩
  let m : P3 := ⟨-(n.x * n.z), -(n.y * n.z), n.x * n.x + n.y * n.y⟩
  if dot m m < 1e-30 then [] else      -- the arc lies on the equator: no apex
    let m := unit m
    let inside (q : P3) : Bool := 0 < dot (cross a q) n && 0 < dot (cross q b) n
    (if inside m then [m] else []) ++ (if inside (vneg m) then [vneg m] else [])

def boundary (k : Nat) (corners : List P3) : List P3 :=
  (cyc corners).flatMap fun e => arcSamples k e.1 e.2 ++ arcApex e.1 e.2

/-- smallest of the normalised left-turn determinants `(pᵢ × pᵢ₊₁)·pole / ‖pᵢ × pᵢ₊₁‖` of a
    counter-clockwise face: positive ⇔ the pole is strictly inside the (convex) face; its size is the
    (sine of the) angular margin -/
def poleMargin (north : Bool) (corners : List P3) : Float :=
  let pole : P3 := ⟨0, 0, if north then 1 else -1⟩
  (cyc corners).foldl (fun m e =>
    -- unit normal of the edge's plane as `a × (b − a)` (no cancellation for short edges): the value
    -- is the sine of the pole's distance from the edge's great circle, whatever the edge length
    let n := cross e.1 (vsub e.2 e.1)
    let d := dot n pole / Float.sqrt (dot n n)
    if d < m then d else m) 2

def isPoleCorner (north : Bool) (p : P3) : Bool :=
  p.x * p.x + p.y * p.y < 1e-24 && (if north then 0 < p.z else p.z < 0)

def fmin (l : List Float) (d : Float) : Float := l.foldl (fun m x => if x < m then x else m) d
def fmax (l : List Float) (d : Float) : Float := l.foldl (fun m x => if m < x then x else m) d

/-- circular distance of two longitudes -/
def lonDist (a b : Float) : Float :=
  let d := Float.abs (a - b)
  let d := if twoPi ≤ d then d - twoPi else d
  if pi < d then twoPi - d else d

/-- `x` in the (possibly wrapping) interval, with slack -/
def inLonTol (tol lo hi x : Float) : Bool :=
  (if lo ≤ hi then lo - tol ≤ x && x ≤ hi + tol else lo - tol ≤ x || x ≤ hi + tol)
  || lonDist x lo ≤ tol || lonDist x hi ≤ tol

/-- insertion sort -/
def fsort : List Float → List Float
  | [] => []
  | x :: xs => let rec ins (x : Float) : List Float → List Float
                 | [] => [x]
                 | y :: ys => if x ≤ y then x :: y :: ys else y :: ins x ys
               ins x (fsort xs)

/-- the shortest interval covering the longitudes: complement of the largest gap -/
def hullLon (lons : List Float) : Float × Float :=
  match fsort lons with
  | [] => (0, 0)
  | l0 :: rest =>
    let s := l0 :: rest
    let last := s.getLast?.getD l0
    -- candidates (gap, lo, hi): the interval starts after the gap and ends before it
    let cands := (s.zip rest).map (fun p => (p.2 - p.1, p.2, p.1)) ++ [(l0 + twoPi - last, l0, last)]
    let best := cands.foldl (fun b c => if b.1 < c.1 then c else b) (-1, l0, last)
    (best.2.1, best.2.2)

structure Verdict where
  fails : Nat            -- bit mask of failed clauses
  poleN : Float          -- margin of "north pole strictly inside"
  poleS : Float
  latLo : Float          -- what the boundary needs
  latHi : Float
  lonLo : Float
  lonHi : Float

/-- evaluate the five clauses on a reported box; `margin` is the smallest pole determinant that
    counts as "strictly inside" -/
def judge (k : Nat) (tol margin : Float) (corners : List P3) (bLatLo bLatHi bLonLo bLonHi : Float) :
    Verdict :=
  let pts := boundary k corners
  let mN := poleMargin true corners
  let mS := poleMargin false corners
  let inN := margin < mN
  let inS := margin < mS
  let lats := pts.map latOf
  let needLo := if inS || corners.any (isPoleCorner false) then -halfPi else fmin lats 2
  let needHi := if inN || corners.any (isPoleCorner true) then halfPi else fmax lats (-2)
  let offPole := pts.filter fun p => !(p.x * p.x + p.y * p.y < 1e-24)
  let cl0 := lats.all fun l => bLatLo - tol ≤ l && l ≤ bLatHi + tol
  let full := Float.abs bLonLo ≤ tol && Float.abs (bLonHi - twoPi) ≤ tol
  let cl1 := full || offPole.all fun p => inLonTol tol bLonLo bLonHi (lonOf p)
  let cl2 := (!inN || (Float.abs (bLatHi - halfPi) ≤ tol && full)) &&
             (!inS || (Float.abs (bLatLo + halfPi) ≤ tol && full))
  let cl3 := Float.abs (bLatLo - needLo) ≤ tol && Float.abs (bLatHi - needHi) ≤ tol
  let cornerLons := (corners.filter fun p => !(p.x * p.x + p.y * p.y < 1e-24)).map lonOf
  let h := hullLon cornerLons
  let cl4 := inN || inS || (lonDist bLonLo h.1 ≤ tol && lonDist bLonHi h.2 ≤ tol && !full)
  let bit (b : Bool) (i : Nat) : Nat := if b then 0 else 2 ^ i
  { fails := bit cl0 0 + bit cl1 1 + bit cl2 2 + bit cl3 3 + bit cl4 4,
    poleN := mN, poleS := mS, latLo := needLo, latHi := needHi,
    lonLo := if inN || inS then 0 else h.1, lonHi := if inN || inS then twoPi else h.2 }

end Oracle

end UxVerif.Bounds
