/-
  UxVerif.Model.Integrate — transcription of `UxDataArray.integrate`
  (uxarray/core/dataarray.py) and the decidable C06 specification.  Core Lean only.

      areas, _ = self.uxgrid.compute_face_areas(rule, order)
      integral = np.einsum("i,...i", areas, self.values)        -- Σ_f areas[f]·values[…,f]
      UxDataArray(integral, uxgrid=self.uxgrid, dims=self.dims[:-1], name=self.name)

  * the arithmetic is generic over `[Add K] [Mul K] [OfNat K 0]`: executed at `Rat` by the driver
    (exact), proved over every commutative semiring in `Props/C06.lean`;
  * an n-dimensional array is what NumPy stores: a shape and the row-major flat data;
  * `integrate` is the REPAIRED dispatch (on the NAME of the last dimension, see
    fixes/C06-dispatch-on-dim-name.patch); `integrateAsIs` is the dispatch of the pinned
    snapshot (on the LENGTH of the last dimension), kept for the regression counterexample.
  * face areas are an input (their correctness is C05); the harness obtains them from an
    independent `compute_face_areas(rule, order)` call.
-/
namespace UxVerif.Integrate

/-! ### arithmetic -/
section Algebra
variable {K : Type} [Add K] [Mul K] [OfNat K 0]

/-- `np.einsum("i,i", areas, row)` = Σ_f areas[f]·row[f] -/
def dot : List K → List K → K
  | a :: as, d :: ds => a * d + dot as ds
  | _, _ => 0

/-- Σ of a list -/
def sumL : List K → K
  | [] => 0
  | a :: as => a + sumL as

/-- `data.reshape(m, n)`: the `m` consecutive rows of length `n` of row-major flat data -/
def rowsOf : Nat → Nat → List K → List (List K)
  | 0, _, _ => []
  | m + 1, n, l => l.take n :: rowsOf m n (l.drop n)

/-- `np.einsum("i,...i", areas, data)` on flat data with `m` leading index combinations -/
def integrateData (areas : List K) (m : Nat) (data : List K) : List K :=
  (rowsOf m areas.length data).map (dot areas)

end Algebra

/-- number of elements of a shape -/
def prodL : List Nat → Nat
  | [] => 1
  | s :: ss => s * prodL ss

/-- row-major flat index of a multi-index -/
def ravel : List Nat → List Nat → Nat
  | _ :: ss, i :: is => i * prodL ss + ravel ss is
  | _, _ => 0

/-- a multi-index is inside a shape -/
def InShape : List Nat → List Nat → Prop
  | [], [] => True
  | s :: ss, i :: is => i < s ∧ InShape ss is
  | _, _ => False

def decInShape : (s idx : List Nat) → Decidable (InShape s idx)
  | [], [] => isTrue trivial
  | [], _ :: _ => isFalse (fun h => h)
  | _ :: _, [] => isFalse (fun h => h)
  | s :: ss, i :: is =>
    have := decInShape ss is
    (inferInstance : Decidable (i < s ∧ InShape ss is))

instance (s idx : List Nat) : Decidable (InShape s idx) := decInShape s idx

/-! ### arrays, grids, outcomes -/

/-- dimension names; `other k` is any name that is not a grid dimension -/
inductive Dim | face | node | edge | other (k : Nat)
deriving DecidableEq, Repr

/-- what `integrate` reads of the grid: the three element counts and the object's identity -/
structure Grid where
  nFace : Nat
  nNode : Nat
  nEdge : Nat
  gid : Nat
deriving DecidableEq, Repr

/-- a `UxDataArray`: dims, shape, row-major data, name (`none` = `None`), identity of `uxgrid` -/
structure Arr (K : Type) where
  dims : List Dim
  shape : List Nat
  data : List K
  name : Option Nat
  grid : Nat
deriving DecidableEq, Repr

/-- the array is a well-formed face-centred variable of the grid: the element dimension is the
    last one, is named `n_face`, has length `n_face`; the data fill the shape -/
def FaceCentred {K} (g : Grid) (a : Arr K) : Prop :=
  a.dims.getLast? = some Dim.face ∧ a.shape.getLast? = some g.nFace ∧
  a.dims.length = a.shape.length ∧ a.data.length = prodL a.shape ∧ a.grid = g.gid

instance {K} (g : Grid) (a : Arr K) : Decidable (FaceCentred g a) := by
  unfold FaceCentred; infer_instance

/-- the array's element dimension (last one) is `n_node` or `n_edge` -/
def NodeOrEdge {K} (a : Arr K) : Prop :=
  a.dims.getLast? = some Dim.node ∨ a.dims.getLast? = some Dim.edge

instance {K} (a : Arr K) : Decidable (NodeOrEdge a) := by unfold NodeOrEdge; infer_instance

/-- a dimension name that is not a grid dimension (`dim_0`, `nCells`, `nVertices`, `x`, …) -/
def Dim.isOther : Dim → Bool
  | .other _ => true
  | _ => false

/-- the element (last) dimension carries a non-grid name -/
def NonGridName {K} (a : Arr K) : Prop := a.dims.getLast?.any Dim.isOther = true

instance {K} (a : Arr K) : Decidable (NonGridName a) := by unfold NonGridName; infer_instance

/-- node- or edge-SIZED data under a non-grid name: by its length it is (also) a node/edge
    variable, nothing says it lives on faces — the property's "all node- or edge-sized arrays
    (must raise), including grids where n_face equals n_node or n_edge" -/
def SizedUnnamed {K} (g : Grid) (a : Arr K) : Prop :=
  NonGridName a ∧ (a.shape.getLast? = some g.nNode ∨ a.shape.getLast? = some g.nEdge)

instance {K} (g : Grid) (a : Arr K) : Decidable (SizedUnnamed g a) := by
  unfold SizedUnnamed; infer_instance

inductive Err | node | edge | other
deriving DecidableEq, Repr

inductive Outcome (K : Type) | ok (r : Arr K) | error (e : Err)
deriving DecidableEq, Repr

section Impl
variable {K : Type} [Add K] [Mul K] [OfNat K 0]

/-- the integrated array (both dispatches build the same result once they accept) -/
def result (areas : List K) (a : Arr K) : Arr K :=
  { dims := a.dims.dropLast, shape := a.shape.dropLast,
    data := integrateData areas (prodL a.shape.dropLast) a.data,
    name := a.name, grid := a.grid }

/-- REPAIRED `UxDataArray.integrate`: dispatch on the name of the element dimension -/
def integrate (g : Grid) (areas : List K) (a : Arr K) : Outcome K :=
  match a.dims.getLast? with
  | some Dim.face =>
      if a.shape.getLast? = some g.nFace then .ok (result areas a) else .error .other
  | some Dim.node => .error .node
  | some Dim.edge => .error .edge
  | _ => .error .other

/-- AS-IS `UxDataArray.integrate` (pinned snapshot): dispatch on `values.shape[-1]` -/
def integrateAsIs (g : Grid) (areas : List K) (a : Arr K) : Outcome K :=
  match a.shape.getLast? with
  | none => .error .other
  | some s =>
      if s = g.nFace then .ok (result areas a)
      else if s = g.nNode then .error .node
      else if s = g.nEdge then .error .edge
      else .error .other

/-- REGRESSION VARIANT (seeded C06f; not what /repo does): the name decides when it is a grid
    name, otherwise the element kind is inferred from the LENGTH with the Python dict
    `{n_edge: "n_edge", n_node: "n_node", n_face: "n_face"}` (later keys win, so `n_face` wins ties) -/
def integrateLenFallback (g : Grid) (areas : List K) (a : Arr K) : Outcome K :=
  match a.dims.getLast?, a.shape.getLast? with
  | some (Dim.other _), some s =>
      if s = g.nFace then .ok (result areas a)
      else if s = g.nNode then .error .node
      else if s = g.nEdge then .error .edge
      else .error .other
  | _, _ => integrate g areas a

/-- AS-IS legacy `UxDataset.integrate` (deprecated): `np.dot(face_areas, first_variable)` with no
    look at the variable's dimensions.  Only its 1-D fragment is modelled (defined iff the lengths
    agree); with leading dimensions `np.dot` contracts the second-to-last axis, which is recorded
    as a known finding and modelled as an error. -/
def datasetIntegrateAsIs (g : Grid) (areas : List K) (a : Arr K) : Outcome K :=
  if a.shape = [g.nFace] then .ok (result areas a) else .error .other

end Impl

/-! ### a process: many grids integrated one after another

  `/repo`'s `integrate` reads nothing but its own array and its own grid, so a process history is
  just the list of the individual results (`runProcess`).  `runIdCache` is the seeded variant C06e
  (NOT what /repo does): a process-wide table of face areas keyed by `(id(uxgrid), rule)`, filled
  on first use and never invalidated — a later grid that lives at the address of a released one
  gets the dead grid's areas. -/

/-- one `integrate` call of a process: the grid object's address, the quadrature (coded), the grid,
    its areas for that quadrature, the array -/
structure Step (K : Type) where
  addr : Nat
  rule : Nat
  g : Grid
  areas : List K
  a : Arr K

section Process
variable {K : Type} [Add K] [Mul K] [OfNat K 0]

/-- what `/repo` does: no state outside the call -/
def runProcess (steps : List (Step K)) : List (Outcome K) :=
  steps.map (fun s => integrate s.g s.areas s.a)

/-- one call of the id-keyed cache variant: (new table, result) -/
def stepIdCache (cache : List ((Nat × Nat) × List K)) (s : Step K) :
    List ((Nat × Nat) × List K) × Outcome K :=
  if s.a.dims.getLast? = some Dim.face ∧ s.a.shape.getLast? = some s.g.nFace then
    match cache.lookup (s.addr, s.rule) with
    | some ar => (cache, integrate s.g ar s.a)
    | none => (((s.addr, s.rule), s.areas) :: cache, integrate s.g s.areas s.a)
  else (cache, integrate s.g s.areas s.a)

def runIdCache (cache : List ((Nat × Nat) × List K)) : List (Step K) → List (Outcome K)
  | [] => []
  | s :: ss => (stepIdCache cache s).2 :: runIdCache (stepIdCache cache s).1 ss

end Process

/-! ### specification (decidable; evaluated by the driver on the implementation's output) -/

/-- what is observed of a call: it raised, or it returned an array -/
inductive Obs | rejected | returned (r : Arr Rat)
deriving DecidableEq, Repr

def obsOf : Outcome Rat → Obs
  | .ok r => .returned r
  | .error _ => .rejected

def absQ (x : Rat) : Rat := if x < 0 then -x else x

/-- Σ_f |areas[f]·row[f]| -/
def sumAbs : List Rat → List Rat → Rat
  | a :: as, d :: ds => absQ (a * d) + sumAbs as ds
  | _, _ => 0

/-- 2⁻⁵² -/
def ulp : Rat := 1 / 4503599627370496

/-- the property's float tolerance for one output element: `n_face · 2⁻⁵² · Σ|terms|` around the
    exact weighted sum -/
def Close (areas row : List Rat) (v : Rat) : Prop :=
  absQ (v - dot areas row) ≤ (areas.length : Rat) * ulp * sumAbs areas row

instance (areas row v) : Decidable (Close areas row v) := by unfold Close; infer_instance

/-- the leading-index row `i` of flat data with rows of length `n` -/
def rowAt {K} (n : Nat) (data : List K) (i : Nat) : List K := (data.drop (i * n)).take n

/-- clauses for a face-centred input -/
def SpecDims (a r : Arr Rat) : Prop := r.dims = a.dims.dropLast
def SpecShape (a r : Arr Rat) : Prop :=
  r.shape = a.shape.dropLast ∧ r.data.length = prodL a.shape.dropLast
def SpecName (a r : Arr Rat) : Prop := r.name = a.name
def SpecGrid (a r : Arr Rat) : Prop := r.grid = a.grid
/-- for EVERY leading index `i`, the value is Σ_f value[i,f]·area[f] within the tolerance -/
def SpecValues (areas : List Rat) (a r : Arr Rat) : Prop :=
  ∀ i, i < prodL a.shape.dropLast →
    ∃ v, r.data[i]? = some v ∧ Close areas (rowAt areas.length a.data i) v

instance (a r) : Decidable (SpecDims a r) := by unfold SpecDims; infer_instance
instance (a r) : Decidable (SpecShape a r) := by unfold SpecShape; infer_instance
instance (a r) : Decidable (SpecName a r) := by unfold SpecName; infer_instance
instance (a r) : Decidable (SpecGrid a r) := by unfold SpecGrid; infer_instance
instance (v : Option Rat) (p : Rat → Prop) [DecidablePred p] :
    Decidable (∃ x, v = some x ∧ p x) :=
  match v with
  | none => isFalse (by rintro ⟨x, h, _⟩; cases h)
  | some y => if h : p y then isTrue ⟨y, rfl, h⟩
              else isFalse (by rintro ⟨x, hx, hp⟩; cases hx; exact h hp)
instance (areas a r) : Decidable (SpecValues areas a r) := by unfold SpecValues; infer_instance

/-- **C06**: a face-centred variable is integrated (dims, shape, name, grid, values); a variable
    whose element dimension is `n_node`/`n_edge` is rejected — whatever the sizes; a node- or
    edge-sized variable under a non-grid name is rejected (in particular when that length happens
    to equal `n_face`); nothing is demanded for other inputs. -/
def Spec (g : Grid) (areas : List Rat) (a : Arr Rat) (o : Obs) : Prop :=
  (FaceCentred g a →
     ∃ r, o = .returned r ∧ SpecDims a r ∧ SpecShape a r ∧ SpecName a r ∧ SpecGrid a r ∧
       SpecValues areas a r) ∧
  (NodeOrEdge a → o = .rejected) ∧
  (SizedUnnamed g a → o = .rejected)

/-- names of the clauses that fail (empty = `Spec` holds); this is what the driver prints -/
def failedClauses (g : Grid) (areas : List Rat) (a : Arr Rat) (o : Obs) : List String :=
  (if FaceCentred g a then
     match o with
     | .rejected => ["face_data_rejected"]
     | .returned r =>
       (if SpecDims a r then [] else ["dims"]) ++ (if SpecShape a r then [] else ["shape"]) ++
       (if SpecName a r then [] else ["name"]) ++ (if SpecGrid a r then [] else ["grid"]) ++
       (if SpecValues areas a r then [] else ["values"])
   else []) ++
  (if NodeOrEdge a then
     match o with
     | .rejected => []
     | .returned _ => ["dispatch_rejects"]
   else []) ++
  (if SizedUnnamed g a then
     match o with
     | .rejected => []
     | .returned _ => ["unnamed_sized_rejects"]
   else [])

/-! ### extended values: NaN and ±∞ in the data (IEEE-754 semantics of Σ area·value)

  The SAME model function `integrate` is run over `ExtVal` (areas embedded as `fin`): `+` and `*`
  are the IEEE rules on the special values and exact rational arithmetic on finite ones.  Hence:
  any NaN term ⇒ NaN; ∞·0 ⇒ NaN; ∞ − ∞ ⇒ NaN; otherwise ±∞ or the exact sum. -/

inductive ExtVal | nan | pinf | ninf | fin (q : Rat)
deriving DecidableEq, Repr

namespace ExtVal

def neg : ExtVal → ExtVal
  | nan => nan | pinf => ninf | ninf => pinf | fin q => fin (-q)

def add : ExtVal → ExtVal → ExtVal
  | nan, _ => nan
  | _, nan => nan
  | pinf, ninf => nan
  | ninf, pinf => nan
  | pinf, _ => pinf
  | _, pinf => pinf
  | ninf, _ => ninf
  | _, ninf => ninf
  | fin a, fin b => fin (a + b)

/-- sign of a rational as an extended infinity factor: `∞·q` -/
def infTimes (pos : Bool) (q : Rat) : ExtVal :=
  if q = 0 then nan else if (0 < q) = pos then pinf else ninf

def mul : ExtVal → ExtVal → ExtVal
  | nan, _ => nan
  | _, nan => nan
  | pinf, pinf => pinf
  | ninf, ninf => pinf
  | pinf, ninf => ninf
  | ninf, pinf => ninf
  | pinf, fin q => infTimes true q
  | fin q, pinf => infTimes true q
  | ninf, fin q => infTimes false q
  | fin q, ninf => infTimes false q
  | fin a, fin b => fin (a * b)

instance : Add ExtVal := ⟨add⟩
instance : Mul ExtVal := ⟨mul⟩
instance : OfNat ExtVal 0 := ⟨fin 0⟩

def toRat? : ExtVal → Option Rat
  | fin q => some q
  | _ => none

end ExtVal

/-- xarray's `sum(skipna=True)` (seeded variant C06g; NOT what /repo does): NaN products are
    dropped from the sum -/
def dotSkipNaN : List Rat → List ExtVal → ExtVal
  | a :: as, d :: ds =>
      match ExtVal.fin a * d with
      | .nan => dotSkipNaN as ds
      | t => t + dotSkipNaN as ds
  | _, _ => 0

/-- what is observed of a call on data with special values -/
inductive ObsE | rejected | returned (r : Arr ExtVal)
deriving DecidableEq, Repr

def obsEOf : Outcome ExtVal → ObsE
  | .ok r => .returned r
  | .error _ => .rejected

/-- the value clause on extended values: the class (NaN, +∞, −∞, finite) is the IEEE class of
    Σ area·value, and a finite value is within the float tolerance of the exact sum -/
def CloseE (areas : List Rat) (row : List ExtVal) (o : ExtVal) : Prop :=
  match dot (areas.map ExtVal.fin) row, o with
  | .nan, .nan => True
  | .pinf, .pinf => True
  | .ninf, .ninf => True
  | .fin _, .fin v => Close areas ((row.take areas.length).filterMap ExtVal.toRat?) v
  | _, _ => False

instance (areas row o) : Decidable (CloseE areas row o) := by
  unfold CloseE; split <;> infer_instance

def SpecValuesE (areas : List Rat) (a r : Arr ExtVal) : Prop :=
  ∀ i, i < prodL a.shape.dropLast →
    ∃ v, r.data[i]? = some v ∧ CloseE areas (rowAt areas.length a.data i) v

instance (v : Option ExtVal) (p : ExtVal → Prop) [DecidablePred p] :
    Decidable (∃ x, v = some x ∧ p x) :=
  match v with
  | none => isFalse (by rintro ⟨x, h, _⟩; cases h)
  | some y => if h : p y then isTrue ⟨y, rfl, h⟩
              else isFalse (by rintro ⟨x, hx, hp⟩; cases hx; exact h hp)
instance (areas a r) : Decidable (SpecValuesE areas a r) := by unfold SpecValuesE; infer_instance

/-- the structural clauses (dims, shape, name, grid) on extended-value arrays -/
def SpecMetaE (a r : Arr ExtVal) : Prop :=
  r.dims = a.dims.dropLast ∧ (r.shape = a.shape.dropLast ∧ r.data.length = prodL a.shape.dropLast) ∧
  r.name = a.name ∧ r.grid = a.grid

instance (a r) : Decidable (SpecMetaE a r) := by unfold SpecMetaE; infer_instance

/-- **C06 on data with special values** -/
def SpecE (g : Grid) (areas : List Rat) (a : Arr ExtVal) (o : ObsE) : Prop :=
  (FaceCentred g a → ∃ r, o = .returned r ∧ SpecMetaE a r ∧ SpecValuesE areas a r) ∧
  (NodeOrEdge a → o = .rejected) ∧
  (SizedUnnamed g a → o = .rejected)

def failedClausesE (g : Grid) (areas : List Rat) (a : Arr ExtVal) (o : ObsE) : List String :=
  (if FaceCentred g a then
     match o with
     | .rejected => ["face_data_rejected"]
     | .returned r =>
       (if SpecMetaE a r then [] else ["meta"]) ++ (if SpecValuesE areas a r then [] else ["values"])
   else []) ++
  (if NodeOrEdge a then
     match o with
     | .rejected => []
     | .returned _ => ["dispatch_rejects"]
   else []) ++
  (if SizedUnnamed g a then
     match o with
     | .rejected => []
     | .returned _ => ["unnamed_sized_rejects"]
   else [])

end UxVerif.Integrate
