/-
  UxVerif.Model.Readers — transcription of the grid readers of `uxarray/io/*` (C01).

  A *source* is what a file / dataset / array in a given format contains; for every format
  there is
    * `encode…`  — the definition of "a well-formed source in that dialect describing the
                    abstract mesh `m`" (faces = lists of zero-based node numbers), and
    * `decode…`  — what the reader does with such a source (the REPAIRED algorithm where a
                    fix patch is proposed; the algorithm as it stands is kept as `…AsIs`
                    for the proved counterexamples).
  Everything is core Lean (import-free) so that the driver executes the same definitions.

  Anchors: io/_ugrid.py `_standardize_connectivity`, grid/connectivity.py
  `_replace_fill_values`, io/_topology.py `_process_connectivity`, io/_mpas.py
  `_replace_padding/_replace_zeros/_to_zero_index`, io/_esmf.py, io/_exodus.py,
  io/_geos.py, io/_icon.py, io/_scrip.py, io/_vertices.py, io/_geopandas.py,
  grid/coordinates.py `_set_desired_longitude_range`.
-/
import UxVerif.Model.Basic
import UxVerif.Model.Edges

namespace UxVerif.Readers
open UxVerif

/-! ## Stored cells, dtypes, fill declarations -/

/-- one stored connectivity entry: an integer value (also an integral float) or NaN -/
inductive Cell where
  | val (v : Int)
  | nan
deriving DecidableEq, Repr

/-- storage type of a connectivity variable -/
inductive Store where
  | i32 | i64 | f64
deriving DecidableEq, Repr

abbrev Raw := List (List Cell)

/-- `grid_var == original_fill` / `np.isnan(grid_var)` of `_replace_fill_values` -/
def isFillCell (fv : Option Cell) (c : Cell) : Bool :=
  match fv, c with
  | some .nan, .nan => true
  | some (.val v), .val x => x == v
  | _, _ => false

/-- a NaN that is not the declared fill has no integer value (`astype` of it is undefined
    behaviour in NumPy); the model refuses such a source -/
def badCell (fv : Option Cell) (c : Cell) : Bool := c == .nan && !isFillCell fv c

def hasBad (fv : Option Cell) (raw : Raw) : Bool := raw.any (·.any (badCell fv))

/-- `_replace_fill_values(grid_var, original_fill, INT_FILL_VALUE, INT_DTYPE)` on one cell -/
def cellInt (fv : Option Cell) (c : Cell) : Int :=
  if isFillCell fv c then FILL else
  match c with
  | .val x => x
  | .nan => FILL

def replaceFill (fv : Option Cell) (raw : Raw) : Table := raw.map (·.map (cellInt fv))

/-- `conn[conn != INT_FILL_VALUE] -= start` -/
def shiftRow (s : Int) (r : List Int) : List Int := r.map (fun x => if x = FILL then FILL else x - s)
def shift (s : Int) (t : Table) : Table := t.map (shiftRow s)

def minList : List Int → Option Int
  | [] => none
  | x :: xs =>
    match minList xs with
    | none => some x
    | some m => some (if x ≤ m then x else m)

/-- the real (non-padding) entries of a table -/
def nonFill (t : Table) : List Int := t.flatten.filter (fun x => x != FILL)

/-! ## UGRID (`_read_ugrid` → `_standardize_connectivity`) -/

structure USource where
  cells : Raw
  /-- `_FillValue` attribute of the variable (absent = `none`) -/
  fillAttr : Option Cell
  /-- `start_index` attribute (absent = `none`) -/
  startAttr : Option Int
  store : Store
deriving Repr, DecidableEq

/-- `original_fv`: the attribute, else NaN when any entry is NaN, else none -/
def origFill (s : USource) : Option Cell :=
  match s.fillAttr with
  | some c => some c
  | none => if s.cells.any (·.any (fun c => c == Cell.nan)) then some .nan else none

/-- the start index: the attribute, else the smallest real entry (0 for an all-fill table) -/
def startOf (startAttr : Option Int) (t : Table) : Int :=
  match startAttr with
  | some a => a
  | none => (minList (nonFill t)).getD 0

/-- REPAIRED `_standardize_connectivity` (fixes/C01-ugrid-start-index.patch): fill values are
    located first, the start index (attribute, else the smallest *real* entry) is subtracted
    from the real entries only, and this also happens when dtype and fill are already the
    standard ones. -/
def decodeUgrid (s : USource) : Except String Table :=
  let fv := origFill s
  if hasBad fv s.cells then .error "NaN entry that is not the declared fill value" else
  let t := replaceFill fv s.cells
  .ok (shift (startOf s.startAttr t) t)

/-- `_read_ugrid`: every connectivity variable the topology names (`face_node`, `face_edge`,
    `face_face`, `edge_node`, `edge_face`, `node_edge`, `node_face`) is standardised ON ITS OWN —
    from its own values, `_FillValue`, `start_index` and dtype; nothing is carried from one table
    to the next. -/
def decodeUgridAll (srcs : List USource) : List (Except String Table) := srcs.map decodeUgrid

/-- two's-complement wrap-around of `int64` arithmetic -/
def wrap64 (x : Int) : Int := (x + 9223372036854775808) % 18446744073709551616 - 9223372036854775808

/-- `_standardize_connectivity` AS IT STANDS in the snapshot: nothing at all happens when
    dtype and fill are already standard; otherwise an absent `start_index` is replaced by
    `new_conn.min()` taken over ALL entries, padding included. -/
def decodeUgridAsIs (s : USource) : Except String Table :=
  let fv := origFill s
  if hasBad fv s.cells then .error "NaN entry that is not the declared fill value" else
  let t := replaceFill fv s.cells
  if s.store = .i64 ∧ fv = some (.val FILL) then .ok t else
  let start := match s.startAttr with
    | some a => a
    | none => (minList t.flatten).getD 0
  .ok (t.map (·.map (fun x => if x = FILL then FILL else wrap64 (x - start))))

/-- how a UGRID-like source may declare its padding -/
inductive Fill where
  | none                -- no `_FillValue`, no padding (all faces have full width)
  | int (v : Int)       -- `_FillValue = v`, integer (or integral float) padding
  | nan                 -- NaN padding in float storage, no attribute (what `xr.open_dataset` yields)
  | nanAttr             -- NaN padding and `_FillValue = NaN`
deriving DecidableEq, Repr

structure UDialect where
  /-- index base the source uses -/
  base : Int
  /-- is the `start_index` attribute present -/
  declared : Bool
  fill : Fill
  store : Store
deriving DecidableEq, Repr

def padCell : Fill → Cell
  | .int v => .val v
  | .nan => .nan
  | .nanAttr => .nan
  | .none => .val 0

def fillAttrOf : Fill → Option Cell
  | .int v => some (.val v)
  | .nanAttr => some .nan
  | _ => none

def encRow (base : Int) (fill : Fill) (w : Nat) (f : List Nat) : List Cell :=
  f.map (fun v => Cell.val (Int.ofNat v + base)) ++ List.replicate (w - f.length) (padCell fill)

/-- the UGRID source describing mesh `m` in dialect `d` with rows of width `w` -/
def encodeUgrid (d : UDialect) (w : Nat) (m : Mesh) : USource :=
  { cells := m.map (encRow d.base d.fill w)
    fillAttr := fillAttrOf d.fill
    startAttr := if d.declared then some d.base else none
    store := d.store }

/-- a mesh over `n` nodes whose faces fit into rows of width `w` -/
def WFMesh (n w : Nat) (m : Mesh) : Prop :=
  ∀ f ∈ m, 0 < f.length ∧ f.length ≤ w ∧ ∀ v ∈ f, v < n

instance (n w m) : Decidable (WFMesh n w m) := by unfold WFMesh; infer_instance

/-- the dialect can describe `m` at all:
    * the declared fill is not a valid index (`base ≤ v < base + n`),
    * NaN padding needs float storage, "no fill" needs full rows,
    * without a `start_index` attribute the reader infers the base as the smallest index
      present, so the lowest-numbered node must be a corner of some face. -/
def DialectOK (d : UDialect) (n w : Nat) (m : Mesh) : Prop :=
  0 ≤ d.base ∧
  (match d.fill with
   | .int v => ¬ (d.base ≤ v ∧ v < d.base + Int.ofNat n)
   | .nan => d.store = .f64
   | .nanAttr => d.store = .f64
   | .none => ∀ f ∈ m, f.length = w) ∧
  (d.declared = false → ∃ f ∈ m, 0 ∈ f)

instance (d n w m) : Decidable (DialectOK d n w m) := by
  unfold DialectOK
  cases d.fill <;> infer_instance

/-- `DialectOK` without its last clause: what the dialect needs whether or not the base is declared -/
def DialectCore (d : UDialect) (n w : Nat) (m : Mesh) : Prop :=
  0 ≤ d.base ∧
  (match d.fill with
   | .int v => ¬ (d.base ≤ v ∧ v < d.base + Int.ofNat n)
   | .nan => d.store = .f64
   | .nanAttr => d.store = .f64
   | .none => ∀ f ∈ m, f.length = w)

instance (d n w m) : Decidable (DialectCore d n w m) := by
  unfold DialectCore
  cases d.fill <;> infer_instance

/-- the lowest node number any face uses (0 for a mesh without corners) -/
def lowest (m : Mesh) : Nat := ((minList (m.flatten.map Int.ofNat)).getD 0).toNat

/-- the same element lists counted from the lowest used index: what the rule "an undeclared base
    is the smallest real entry" makes of a table -/
def rebase (k : Nat) (m : Mesh) : Mesh := m.map (·.map (· - k))

/-! ## explicit topology arrays (`_read_topology` → `_process_connectivity`) -/

/-- REPAIRED `_process_connectivity(conn, orig_fv, start_index)`
    (fixes/C01-topology-dtype.patch adds the missing dtype conversion in the no-fill branch;
    values are unaffected, so the value-level model is the same for both). -/
def decodeTopology (cells : Raw) (fv : Option Cell) (start : Int) : Except String Table :=
  if hasBad fv cells then .error "NaN entry that is not the declared fill value" else
  .ok (shift start (replaceFill fv cells))

def encodeTopology (base : Int) (fill : Fill) (w : Nat) (m : Mesh) : Raw :=
  m.map (encRow base fill w)

/-- the arguments `(fill_value, start_index)` can describe `m` -/
def TopoOK (base : Int) (fill : Fill) (n w : Nat) (m : Mesh) : Prop :=
  0 ≤ base ∧
  (match fill with
   | .int v => ¬ (base ≤ v ∧ v < base + Int.ofNat n)
   | .nan => True
   | .nanAttr => True
   | .none => ∀ f ∈ m, f.length = w)

instance (base fill n w m) : Decidable (TopoOK base fill n w m) := by
  unfold TopoOK
  cases fill <;> infer_instance

/-- the `fill_value` argument a caller passes for a given padding convention -/
def fillArgOf : Fill → Option Cell
  | .int v => some (.val v)
  | .nan => some .nan
  | .nanAttr => some .nan
  | .none => none

/-! ## MPAS (`_replace_padding`, `_replace_zeros`, `_to_zero_index`) and ESMF -/

/-- `_replace_padding`: everything at column `≥ nEdgesOnCell[i]` becomes `FILL` -/
def replacePadding (r : List Int) (k : Nat) : List Int :=
  r.take k ++ List.replicate (r.length - k) FILL

/-- `_replace_zeros` then `_to_zero_index` on one entry -/
def zeroOne (x : Int) : Int :=
  let y := if x = 0 then FILL else x
  if y = FILL then FILL else y - 1

/-- `verticesOnCell` / `edgesOnCell` / `cellsOnCell` with `nEdgesOnCell` -/
def decodeMpasRow (r : List Int) (k : Nat) : List Int := (replacePadding r k).map zeroOne
def decodeMpas (rows : Table) (nEdges : List Nat) : Table :=
  (rows.zip nEdges).map (fun p => decodeMpasRow p.1 p.2)

/-- `cellsOnVertex`, `cellsOnEdge`, `verticesOnEdge`, `edgesOnVertex`: zeros are missing -/
def decodeMpasZeros (rows : Table) : Table := rows.map (·.map zeroOne)

/-- an MPAS row: the face one-based, followed by ANY padding `tail` (zeros, the repeated last
    index, garbage — the reader must not look at it) -/
def encMpasRow (f : List Nat) (tail : List Int) : List Int :=
  f.map (fun v => Int.ofNat v + 1) ++ tail

/-- ESMF `elementConn` row: `numElementConn[i]` real entries based at `start`, then padding -/
def decodeEsmfRow (start : Int) (r : List Int) (k : Nat) : List Int :=
  (r.take k).map (fun x => x - start) ++ List.replicate (r.length - k) FILL
def decodeEsmf (startAttr : Option Int) (rows : Table) (num : List Nat) : Table :=
  let start := startAttr.getD 1
  (rows.zip num).map (fun p => decodeEsmfRow start p.1 p.2)
/-- AS IT STANDS: `"start_index" in in_ds["elementConn"]` tests the VALUES, so the attribute
    is never seen and 1 is always used. -/
def decodeEsmfAsIs (_startAttr : Option Int) (rows : Table) (num : List Nat) : Table :=
  (rows.zip num).map (fun p => decodeEsmfRow 1 p.1 p.2)

def encEsmfRow (base : Int) (f : List Nat) (tail : List Int) : List Int :=
  f.map (fun v => Int.ofNat v + base) ++ tail

/-! ## Exodus (`connect1 … connectK`, one-based, one block per element type) -/

def maxLen {α : Type} (m : List (List α)) : Nat := m.foldl (fun a f => max a f.length) 0

/-- REPAIRED reader (fixes/C01-exodus-blocks.patch): every block is zero-padded to the
    maximum width and appended; `- 1`; `-1 → FILL`. -/
def decodeExodus (blocks : List Table) : Table :=
  let w := maxLen blocks.flatten
  let conn := blocks.flatMap (fun b => b.map (fun r => r ++ List.replicate (w - r.length) 0))
  conn.map (·.map (fun x => if x - 1 = -1 then FILL else x - 1))

/-- AS IT STANDS: `conn = value.data` keeps only the LAST block (unpadded). -/
def decodeExodusAsIs (blocks : List Table) : Table :=
  (blocks.getLast?.getD []).map (·.map (fun x => if x - 1 = -1 then FILL else x - 1))

def encodeExodus (blocks : List Mesh) : List Table :=
  blocks.map (·.map (·.map (fun v => Int.ofNat v + 1)))

/-! ## GEOS cube-sphere corner lattice -/

/-- `np.arange(nf*nx*ny).reshape(nf, nx, ny)[f, a, b]` -/
def gidx (nx ny f a b : Nat) : Int := Int.ofNat (f * (nx * ny) + a * ny + b)

/-- `idx[:, a0 : a0 + nx - 1, b0 : b0 + ny - 1].reshape(-1)`  (`a0, b0 ∈ {0,1}` are the
    `:-1` / `1:` slices) -/
def gslab (nf nx ny a0 b0 : Nat) : List Int :=
  (List.range nf).flatMap fun f => (List.range (nx - 1)).flatMap fun i =>
    (List.range (ny - 1)).map fun j => gidx nx ny f (i + a0) (j + b0)

/-- `np.column_stack((br, bl, tl, tr))` -/
def decodeGeos (nf nx ny : Nat) : Table :=
  let tl := gslab nf nx ny 0 0
  let tr := gslab nf nx ny 0 1
  let bl := gslab nf nx ny 1 0
  let br := gslab nf nx ny 1 1
  List.zipWith (fun a r => a :: r) br
    (List.zipWith (fun a r => a :: r) bl (List.zipWith (fun a b => [a, b]) tl tr))

/-! ## ICON (`vertex_of_cell` is stored `(3, n_cell)`, one-based) -/

/-- REPAIRED (fixes/C01-icon-standard-form.patch): transpose, entries `< 1` are missing,
    the others minus one, standard dtype. -/
def decodeIcon (cols : Table) (ncell : Nat) : Table :=
  (List.range ncell).map fun c => cols.map fun col =>
    let x := col.getD c 0
    if 0 < x then x - 1 else FILL

def encodeIcon (w : Nat) (m : Mesh) : Table :=
  (List.range w).map fun j => m.map fun f => Int.ofNat (f.getD j 0) + 1

/-! ## SCRIP corners and face-vertex arrays (`np.unique(axis=0, return_inverse=True)`) -/

abbrev Key := Int × Int

/-- SCRIP: nodes are the sorted distinct corner coordinates (`np.unique(axis=0)`). -/
def scripNodes (corners : List (List Key)) : List Key := uniqPair corners.flatten

/-- AS IT STOOD in the snapshot: a face row is the rank of each of its corners
    (`_replace_fill_values(unq_inv, -1, …)` changes nothing: ranks are ≥ 0), so a repeated
    last corner is kept as a corner. -/
def decodeScripAsIs (corners : List (List Key)) : Table :=
  let nodes := scripNodes corners
  corners.map (·.map (fun k => if rank nodes k = -1 then FILL else rank nodes k))

/-- length of the trailing run of entries equal to the row's last entry
    (`trailing = cumprod((unq_inv == unq_inv[:, -1:])[:, ::-1])[:, ::-1]`) -/
def lastRun (r : List Int) : Nat :=
  (r.reverse.takeWhile (fun x => x == r.getLastD 0)).length

/-- `padding[:, 1:] = trailing[:, 1:] * trailing[:, :-1]`, `np.where(padding, -1, unq_inv)`:
    every entry of the trailing run except its first one becomes `-1` -/
def scripPad (r : List Int) : List Int :=
  r.take (r.length - (lastRun r - 1)) ++ List.replicate (lastRun r - 1) (-1)

/-- REPAIRED reader (commit "the SCRIP reader treats trailing repeats of a face's last corner
    as padding"): ranks, trailing repeats of the last corner → `-1`, `-1 → FILL`. -/
def decodeScrip (corners : List (List Key)) : Table :=
  let nodes := scripNodes corners
  corners.map (fun row => (scripPad (row.map (rank nodes))).map (fun x => if x = -1 then FILL else x))

/-- a SCRIP row of width `w`: the face's corners, then its last corner repeated -/
def encScripRow (w : Nat) (f : List Key) : List Key :=
  f ++ List.replicate (w - f.length) (f.getLastD (0, 0))

/-- the last two corners of a face are different positions (otherwise the source itself
    cannot tell a corner from padding) -/
def LastDistinct (f : List Key) : Bool :=
  match f.reverse with
  | a :: b :: _ => a != b
  | _ => true

def isFillKey (k : Key) : Bool := k.1 == FILL || k.2 == FILL

/-- the update loop of `_read_face_vertices` for one removed index `idx` -/
def dropIdx (idx : Int) (x : Int) : Int :=
  if x = idx then FILL else if x > idx ∧ x ≠ FILL then x - 1 else x

/-- `_read_face_vertices`: unique over ALL vertices (padding vertices included), then the
    rows of `unique_verts` holding a fill coordinate are deleted and the indices updated. -/
def vertsDecode (verts : List (List Key)) : List Key × Table :=
  let nodes0 := uniqPair verts.flatten
  let ind : Table := verts.map (·.map (rank nodes0))
  let falseIdx : List Nat := (List.range nodes0.length).filter (fun i => isFillKey (nodes0.getD i (0, 0)))
  let nodes := nodes0.filter (fun k => !isFillKey k)
  let ind' := falseIdx.foldl (fun t idx => t.map (·.map (dropIdx (Int.ofNat idx)))) ind
  (nodes, ind')

def encVertsRow (w : Nat) (f : List Key) : List Key :=
  f ++ List.replicate (w - f.length) (FILL, FILL)

/-! ## GeoJSON / shapefile exterior rings (`_read_polygon`) -/

/-- one ring of `k` vertices starting at running node index `off`, padded to width `w` -/
def ringRow (w off k : Nat) : List Int :=
  (List.range k).map (fun j => Int.ofNat (off + j)) ++ List.replicate (w - k) FILL

def ringsGo (w : Nat) : Nat → List Nat → Table
  | _, [] => []
  | off, k :: ks => ringRow w off k :: ringsGo w (off + k) ks

/-- connectivity for rings of the given sizes (multipolygons already flattened) -/
def decodeRings (sizes : List Nat) : Table := ringsGo (sizes.foldl max 0) 0 sizes

/-! ## Longitude convention (`_set_desired_longitude_range`) -/

section Lon
variable {K : Type} [Add K] [Sub K] [Mul K] [Div K] [OfNat K 180] [OfNat K 360]

/-- `(x + 180) % 360 - 180` with Python's floored `%`:  `a % b = a - b * floor (a / b)` -/
def normLon (floor : K → K) (x : K) : K :=
  let a := x + 180
  (a - 360 * floor (a / 360)) - 180

/-- `if lon.max() > 180: lon = (lon + 180) % 360 - 180` -/
def setRange (floor : K → K) (gt180 : K → Bool) (l : List K) : List K :=
  if l.any gt180 then l.map (normLon floor) else l

/-- `_set_desired_longitude_range(ds)`: `node_lon`, `edge_lon`, `face_lon` — each variable that is
    present is tested (`max > 180`) and wrapped ON ITS OWN -/
def setRangeAll (floor : K → K) (gt180 : K → Bool) (vars : List (List K)) : List (List K) :=
  vars.map (setRange floor gt180)
end Lon

/-! ## Format sniffing (`uxarray/io/utils.py::_parse_grid_type`, dispatch in `Grid.from_dataset`) -/

inductive Fmt where
  | exodus | scrip | ugrid | mpas | esmf | geos | icon
deriving DecidableEq, Repr

/-- what `_parse_grid_type` looks at: presence of marker variables / dimensions / attributes -/
structure Markers where
  coord : Bool            -- variable `coord`
  coordx : Bool           -- variable `coordx`
  gridCenterLon : Bool    -- variable `grid_center_lon`
  attrNodeCoords : Bool   -- some variable has attribute `node_coordinates`
  attrFaceNode : Bool     -- some variable has attribute `face_node_connectivity`
  attrTopoDim : Bool      -- some variable has attribute `topology_dimension`
  roleMeshTopo : Bool     -- some variable has `cf_role = mesh_topology`
  verticesOnCell : Bool   -- variable `verticesOnCell`
  dimMaxNodePElement : Bool
  dimNf : Bool
  dimYC : Bool
  dimXC : Bool
  vertexOfCell : Bool     -- variable `vertex_of_cell`
deriving DecidableEq, Repr

/-- `_is_ugrid` -/
def Markers.isUgrid (k : Markers) : Bool :=
  k.roleMeshTopo && k.attrTopoDim && k.attrFaceNode && k.attrNodeCoords

/-- `_parse_grid_type`: the first matching test wins; `none` = `RuntimeError("Could not
    recognize dataset format.")` -/
def sniff (k : Markers) : Option Fmt :=
  if k.coord then some .exodus
  else if k.coordx then some .exodus
  else if k.gridCenterLon then some .scrip
  else if k.isUgrid then some .ugrid
  else if k.verticesOnCell then some .mpas
  else if k.dimMaxNodePElement then some .esmf
  else if k.dimNf && k.dimYC && k.dimXC then some .geos
  else if k.vertexOfCell then some .icon
  else none

/-! ## Specification evaluated on the implementation's output (decidable) -/

def isRotation (a b : List Int) : Bool :=
  a.length == b.length && (List.range (max 1 a.length)).any (fun k => a.rotateLeft k == b)

/-- `out` presents exactly the faces of `m`:
    standard form over `n` nodes / width `w`; same number of faces in the same order; every
    row's real corners, mapped through `nodeMap` (implementation node ↦ source node, found by
    position; the identity for index-preserving readers), are the source face up to the
    start corner. -/
def FacesOK (m : Mesh) (nodeMap : List Int) (out : Table) : Prop :=
  out.length = m.length ∧
  ∀ i, i < m.length →
    isRotation ((faceOf (rowAt out i)).map (fun x => (getI? nodeMap x).getD (-1)))
      ((m.getD i []).map Int.ofNat) = true

def Spec (n w : Nat) (m : Mesh) (nodeMap : List Int) (out : Table) : Prop :=
  Edges.StdForm n w out ∧ FacesOK m nodeMap out

instance (m nm out) : Decidable (FacesOK m nm out) := by unfold FacesOK; infer_instance
instance (n w m nm out) : Decidable (Spec n w m nm out) := by unfold Spec; infer_instance

def failing (n w : Nat) (m : Mesh) (nodeMap : List Int) (out : Table) : List String :=
  (if Edges.StdForm n w out then [] else ["std_form"]) ++
  (if out.length = m.length then [] else ["n_face"]) ++
  (if FacesOK m nodeMap out then [] else ["faces"])

/-- identity node map on `n` nodes -/
def idMap (n : Nat) : List Int := (List.range n).map Int.ofNat

end UxVerif.Readers
