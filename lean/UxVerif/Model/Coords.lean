/-
  UxVerif.Model.Coords — C04: spherical and Cartesian coordinates denote the same points.

  Transcription of `uxarray/grid/coordinates.py`
    * `_lonlat_rad_to_xyz`, `_normalize_xyz`, `_xyz_to_lonlat_rad` (double normalisation, `mod 2π`,
      pole snap at `|z| > 1 − ERROR_TOLERANCE`), `_xyz_to_lonlat_deg` (`rad2deg`, ±180 wrap),
    * `_populate_node_latlon`, `_populate_node_xyz`,
    * `_populate_face_centroids` / `_construct_face_centroids`,
      `_populate_edge_centroids` / `_construct_edge_centroids` (three provenance branches each),
    * `_set_desired_longitude_range`,
  of the lazy coordinate properties of `uxarray/grid/grid.py` (`node_lon … face_z`: which of them
  call `_set_desired_longitude_range`, and when) and of `Grid.normalize_cartesian_coordinates` /
  `validation._check_normalization`.

  **Angles carry their unit**: `Deg K` and `Rad K` are different types.  `_lonlat_rad_to_xyz` takes
  `Rad K`; the repaired algorithm type-checks with `deg2rad` only.  What the unrepaired code does
  (stored centre longitudes/latitudes in DEGREES handed to `_lonlat_rad_to_xyz`) needs the explicit
  reinterpretation `Deg.asRad`, so the mix-up is visible in the transcription itself.

  **Provenance state machine**: `St` holds which of {node lon/lat, node xyz, edge lon/lat, edge xyz,
  face lon/lat, face xyz} are stored (`none` = not in `_ds`); `step` is one access of a lazy
  property (or one call of `normalize_cartesian_coordinates`) and returns what the getter returns.

  The three repairs (fixes/C04-*.patch) are the three flags of `Variant`; `repaired` is the model
  of the patched tree, `asIs` the model of the snapshot.

  Everything is generic over the scalar type `K` and the transcendental functions (`Ops K`), so the
  same definitions run at `Float` in the driver and are reasoned about at `ℝ` in `Props/C04.lean`.
  Core Lean only.
-/
import UxVerif.Gen.Constants

namespace UxVerif.Coords

/-- an angle in degrees -/
structure Deg (K : Type) where
  val : K

/-- an angle in radians -/
structure Rad (K : Type) where
  val : K

/-- what the unrepaired centre branches do implicitly: a number of degrees used as a number of
    radians (`_lonlat_rad_to_xyz(centroid_lon, centroid_lat)` with the stored degree arrays) -/
def Deg.asRad {K : Type} (d : Deg K) : Rad K := ⟨d.val⟩

structure V3 (K : Type) where
  x : K
  y : K
  z : K

/-- the functions and constants the code takes from NumPy / `math` / `uxarray.constants` -/
structure Ops (K : Type) where
  sin : K → K
  cos : K → K
  /-- `np.arctan2(y, x)` -/
  atan2 : K → K → K
  asin : K → K
  sqrt : K → K
  abs : K → K
  pi : K
  /-- `np.mod(a, b)` (result has the sign of `b`) -/
  fmod : K → K → K
  lt : K → K → Bool
  ofNat : Nat → K
  /-- `uxarray.constants.ERROR_TOLERANCE` -/
  tol : K
  /-- `atol + rtol·|1.0|` of the `np.isclose(…, 1.0, atol=ERROR_TOLERANCE)` in `_check_normalization` -/
  closeTol : K

/-- an array of (longitude, latitude) pairs in degrees -/
abbrev LL (K : Type) := List (Deg K × Deg K)

/-- which repairs are applied -/
structure Variant where
  /-- the `node_lon`/`node_lat` getters call `_set_desired_longitude_range` AFTER
      `_populate_node_latlon` instead of before it (C04-node-lon-range) -/
  nodeWrap : Bool
  /-- stored centre lon/lat are converted to radians before `_lonlat_rad_to_xyz`
      (C04-centre-xyz-degrees) -/
  centreDeg2Rad : Bool
  /-- lon/lat of stored centre xyz are computed with `normalize=True` (C04-centre-lonlat-nonunit) -/
  centreNormalize : Bool
deriving DecidableEq, Repr

def repaired : Variant := ⟨true, true, true⟩
def asIs : Variant := ⟨false, false, false⟩

inductive Kind
  | node | edge | face
deriving DecidableEq, Repr

/-- one step of a history: read `(<kind>_lon, <kind>_lat)`, read `(<kind>_x, _y, _z)`, or call
    `normalize_cartesian_coordinates()` -/
inductive Op
  | getLL (k : Kind)
  | getXYZ (k : Kind)
  | normalize
deriving DecidableEq, Repr

/-- what a step hands back to the caller -/
inductive Report (K : Type)
  | ll (k : Kind) (v : Option (LL K))
  | xyz (k : Kind) (v : Option (List (V3 K)))
  | unit

/-- the coordinate variables of `Grid._ds` (`none` = variable absent) and the `_normalized` flag.
    Longitude and latitude of one kind are always stored together by the code, and so are x, y, z;
    sources that supply only one of a pair are outside the model. -/
structure St (K : Type) where
  nodeLL : Option (LL K)
  nodeXYZ : Option (List (V3 K))
  edgeLL : Option (LL K)
  edgeXYZ : Option (List (V3 K))
  faceLL : Option (LL K)
  faceXYZ : Option (List (V3 K))
  /-- `grid._normalized is True` -/
  normalized : Bool

/-- connectivity read by the centroid constructors: the real corners of every face
    (`face_node_connectivity[f, :n_nodes_per_face[f]]`) and `edge_node_connectivity` -/
structure Conn where
  faces : List (List Nat)
  edges : List (Nat × Nat)

section generic
variable {K : Type} [Add K] [Sub K] [Mul K] [Div K] [Neg K]
  [OfNat K 0] [OfNat K 1] [OfNat K 2] [OfNat K 90] [OfNat K 180] [OfNat K 360]

/-! ### vectors -/

def V3.add (a b : V3 K) : V3 K := ⟨a.x + b.x, a.y + b.y, a.z + b.z⟩
def V3.smul (c : K) (a : V3 K) : V3 K := ⟨c * a.x, c * a.y, c * a.z⟩
def V3.divS (a : V3 K) (d : K) : V3 K := ⟨a.x / d, a.y / d, a.z / d⟩
def V3.zero : V3 K := ⟨0, 0, 0⟩
def dot (a b : V3 K) : K := a.x * b.x + a.y * b.y + a.z * b.z
def normSq (a : V3 K) : K := dot a a

/-! ### unit conversions (`np.deg2rad`, `np.rad2deg`) -/

def deg2rad (T : Ops K) (d : Deg K) : Rad K := ⟨d.val * (T.pi / 180)⟩
def rad2deg (T : Ops K) (r : Rad K) : Deg K := ⟨r.val * (180 / T.pi)⟩

/-- `(lon + 180) % 360 - 180` -/
def wrap180 (T : Ops K) (d : K) : K := T.fmod (d + 180) 360 - 180

/-- `np.sign` -/
def signK (T : Ops K) (z : K) : K := if T.lt 0 z then 1 else if T.lt z 0 then -1 else 0

/-! ### the conversions -/

/-- `_lonlat_rad_to_xyz(lon, lat)`: arguments in RADIANS -/
def xyzOfLonLatRad (T : Ops K) (lon lat : Rad K) : V3 K :=
  ⟨T.cos lon.val * T.cos lat.val, T.sin lon.val * T.cos lat.val, T.sin lat.val⟩

/-- the point a (lon, lat) pair in DEGREES denotes: `_lonlat_rad_to_xyz(deg2rad lon, deg2rad lat)` -/
def dirDeg (T : Ops K) (p : Deg K × Deg K) : V3 K :=
  xyzOfLonLatRad T (deg2rad T p.1) (deg2rad T p.2)

/-- `_normalize_xyz` -/
def normalizeV (T : Ops K) (v : V3 K) : V3 K := v.divS (T.sqrt (normSq v))

/-- `_xyz_to_lonlat_rad(x, y, z, normalize)`: with `normalize=True` the vector is normalised and
    then divided once more by `|x²+y²+z²|`; longitude `mod 2π`; inside the cap
    `|z| > 1 − ERROR_TOLERANCE` the result is snapped to the pole with longitude 0 -/
def lonLatRadOfXyz (T : Ops K) (norm : Bool) (v : V3 K) : Rad K × Rad K :=
  let u := if norm then (normalizeV T v).divS (T.abs (normSq (normalizeV T v))) else v
  let lon := T.fmod (T.atan2 u.y u.x) (2 * T.pi)
  let lat := T.asin u.z
  let mask := T.lt (1 - T.tol) (T.abs u.z)
  (⟨if mask then 0 else lon⟩, ⟨if mask then signK T u.z * T.pi / 2 else lat⟩)

/-- `_xyz_to_lonlat_deg(x, y, z, normalize)`: `rad2deg`, then longitude wrapped by
    `(lon + 180) % 360 - 180` -/
def lonLatDegOfXyz (T : Ops K) (norm : Bool) (v : V3 K) : Deg K × Deg K :=
  let r := lonLatRadOfXyz T norm v
  (⟨wrap180 T (rad2deg T r.1).val⟩, rad2deg T r.2)

/-- `_populate_node_latlon` for one node: `_xyz_to_lonlat_rad(…)` (normalize=True) and `rad2deg`;
    NO wrap, so longitudes west of the prime meridian come out in (180, 360) -/
def nodeLLOfXyz (T : Ops K) (v : V3 K) : Deg K × Deg K :=
  let r := lonLatRadOfXyz T true v
  (rad2deg T r.1, rad2deg T r.2)

/-- `_populate_node_xyz` for one node -/
def nodeXyzOfLL (T : Ops K) (p : Deg K × Deg K) : V3 K := dirDeg T p

/-- xyz of a STORED centre (lon, lat): REPAIRED `_lonlat_rad_to_xyz(deg2rad lon, deg2rad lat)`,
    AS-IS the degrees are passed where radians are expected -/
def centreXyzOfLL (T : Ops K) (V : Variant) (p : Deg K × Deg K) : V3 K :=
  if V.centreDeg2Rad then dirDeg T p else xyzOfLonLatRad T p.1.asRad p.2.asRad

/-- (lon, lat) of a STORED centre xyz: AS-IS `_xyz_to_lonlat_deg(…, normalize=False)` although the
    stored vector may have any radius; REPAIRED `normalize=True` for stored vectors -/
def centreLLOfStoredXyz (T : Ops K) (V : Variant) (v : V3 K) : Deg K × Deg K :=
  lonLatDegOfXyz T V.centreNormalize v

/-! ### centroids -/

def sumV (l : List (V3 K)) : V3 K := l.foldr V3.add V3.zero

/-- `np.mean` of the rows -/
def meanV (T : Ops K) (l : List (V3 K)) : V3 K := (sumV l).divS (T.ofNat l.length)

/-- `node_x[idx]` etc.; total lookup, every use is under the explicit range hypothesis `ConnOK` -/
def nodeAt (nodes : List (V3 K)) (i : Nat) : V3 K := nodes.getD i V3.zero

/-- `_construct_face_centroids` for one face: normalised mean of its real corners -/
def faceCentroid (T : Ops K) (nodes : List (V3 K)) (f : List Nat) : V3 K :=
  normalizeV T (meanV T (f.map (nodeAt nodes)))

/-- `_construct_edge_centroids` for one edge -/
def edgeCentroid (T : Ops K) (nodes : List (V3 K)) (e : Nat × Nat) : V3 K :=
  normalizeV T (meanV T [nodeAt nodes e.1, nodeAt nodes e.2])

/-- every connectivity entry is a node index -/
def ConnOK (n : Nat) (c : Conn) : Prop :=
  (∀ f ∈ c.faces, f ≠ [] ∧ ∀ i ∈ f, i < n) ∧ (∀ e ∈ c.edges, e.1 < n ∧ e.2 < n)

instance (n : Nat) (c : Conn) : Decidable (ConnOK n c) := by
  unfold ConnOK; infer_instance

/-! ### `_set_desired_longitude_range` -/

/-- one longitude variable: `if lon.max() > 180: lon = (lon + 180) % 360 - 180` -/
def wrapArr (T : Ops K) (l : LL K) : LL K :=
  if l.any (fun p => T.lt 180 p.1.val) then l.map (fun p => (⟨wrap180 T p.1.val⟩, p.2)) else l

def wrapRange (T : Ops K) (s : St K) : St K :=
  { s with nodeLL := s.nodeLL.map (wrapArr T), edgeLL := s.edgeLL.map (wrapArr T),
           faceLL := s.faceLL.map (wrapArr T) }

/-! ### the populate functions -/

/-- the `node_x` / `node_y` / `node_z` getters: `_populate_node_xyz` when absent (reads the stored
    node lon/lat) -/
def ensureNodeXYZ (T : Ops K) (s : St K) : St K :=
  match s.nodeXYZ with
  | some _ => s
  | none =>
    match s.nodeLL with
    | some ll => { s with nodeXYZ := some (ll.map (nodeXyzOfLL T)) }
    | none => s

/-- `_populate_node_latlon`: reads the node xyz (stored, since lon/lat are absent) -/
def populateNodeLL (T : Ops K) (s : St K) : St K :=
  match s.nodeXYZ with
  | some xs => { s with nodeLL := some (xs.map (nodeLLOfXyz T)) }
  | none => s

/-- the body shared by `_populate_face_centroids` and `_populate_edge_centroids`: given the
    centroids `constructed` from the node xyz and what is stored, the new stored pair.
    * lon/lat absent, xyz absent: xyz := constructed; lon/lat := `_xyz_to_lonlat_deg(xyz, False)`
    * lon/lat absent, xyz stored: lon/lat from the stored xyz; xyz kept
    * lon/lat stored: xyz from the stored lon/lat, stored only if absent -/
def populateCentre (T : Ops K) (V : Variant) (constructed : List (V3 K))
    (ll : Option (LL K)) (xyz : Option (List (V3 K))) : LL K × List (V3 K) :=
  match ll, xyz with
  | none, none => (constructed.map (lonLatDegOfXyz T false), constructed)
  | none, some c => (c.map (centreLLOfStoredXyz T V), c)
  | some l, none => (l, l.map (centreXyzOfLL T V))
  | some l, some c => (l, c)

def populateFace (T : Ops K) (V : Variant) (c : Conn) (s0 : St K) : St K :=
  let s := ensureNodeXYZ T s0
  let nodes := s.nodeXYZ.getD []
  let r := populateCentre T V (c.faces.map (faceCentroid T nodes)) s.faceLL s.faceXYZ
  { s with faceLL := some r.1, faceXYZ := some r.2 }

def populateEdge (T : Ops K) (V : Variant) (c : Conn) (s0 : St K) : St K :=
  let s := ensureNodeXYZ T s0
  let nodes := s.nodeXYZ.getD []
  let r := populateCentre T V (c.edges.map (edgeCentroid T nodes)) s.edgeLL s.edgeXYZ
  { s with edgeLL := some r.1, edgeXYZ := some r.2 }

/-! ### `normalize_cartesian_coordinates` -/

def leB (T : Ops K) (a b : K) : Bool := !T.lt b a

/-- `np.isclose(x² + y² + z², 1.0, atol=ERROR_TOLERANCE)` -/
def isUnit (T : Ops K) (v : V3 K) : Bool := leB T (T.abs (normSq v - 1)) T.closeTol

/-- `_check_normalization`: all three of its branches (`node_x`, `edge_x`, `face_x` present) test
    the NODE coordinates -/
def nodesUnit (T : Ops K) (s : St K) : Bool :=
  match s.nodeXYZ with
  | some xs => xs.all (isUnit T)
  | none => true

/-- `normalize_cartesian_coordinates`.  `_check_normalization` reads the node coordinates through
    the `node_x` getter when `edge_x` or `face_x` is stored, which populates them as a side effect. -/
def normalizeOp (T : Ops K) (s : St K) : St K :=
  if s.normalized then s
  else
    let s1 := if s.edgeXYZ.isSome || s.faceXYZ.isSome then ensureNodeXYZ T s else s
    if nodesUnit T s1 then { s1 with normalized := true }
    else { s1 with nodeXYZ := s1.nodeXYZ.map (List.map (normalizeV T)),
                   edgeXYZ := s1.edgeXYZ.map (List.map (normalizeV T)),
                   faceXYZ := s1.faceXYZ.map (List.map (normalizeV T)) }

/-! ### the lazy properties -/

/-- one access.  `node_lon`/`node_lat`: AS-IS `_set_desired_longitude_range` BEFORE populating (so
    the freshly derived longitudes stay in [0, 360) until some other getter wraps them), REPAIRED after;
    `edge_lon`/`edge_lat`: populate if absent, then ALWAYS `_set_desired_longitude_range`;
    `face_lon`/`face_lat`: populate and `_set_desired_longitude_range` if absent;
    the Cartesian getters: populate if absent. -/
def step (T : Ops K) (V : Variant) (c : Conn) (s : St K) : Op → St K × Report K
  | .getLL .node =>
    let s' := if s.nodeLL.isNone then
        (if V.nodeWrap then wrapRange T (populateNodeLL T s) else populateNodeLL T (wrapRange T s))
      else s
    (s', .ll .node s'.nodeLL)
  | .getXYZ .node =>
    let s' := ensureNodeXYZ T s
    (s', .xyz .node s'.nodeXYZ)
  | .getLL .edge =>
    let s' := wrapRange T (if s.edgeLL.isNone then populateEdge T V c s else s)
    (s', .ll .edge s'.edgeLL)
  | .getXYZ .edge =>
    let s' := if s.edgeXYZ.isNone then populateEdge T V c s else s
    (s', .xyz .edge s'.edgeXYZ)
  | .getLL .face =>
    let s' := if s.faceLL.isNone then wrapRange T (populateFace T V c s) else s
    (s', .ll .face s'.faceLL)
  | .getXYZ .face =>
    let s' := if s.faceXYZ.isNone then populateFace T V c s else s
    (s', .xyz .face s'.faceXYZ)
  | .normalize => (normalizeOp T s, .unit)

/-- a whole history: the final store and everything the getters returned, in order -/
def run (T : Ops K) (V : Variant) (c : Conn) (s : St K) : List Op → St K × List (Report K)
  | [] => (s, [])
  | op :: ops =>
    let r := step T V c s op
    let rest := run T V c r.1 ops
    (rest.1, r.2 :: rest.2)

/-- `Grid.__init__`: the source's variables, `_normalized = None`, `_set_desired_longitude_range` -/
def init (T : Ops K) (src : St K) : St K := wrapRange T { src with normalized := false }

/-! ### the decidable specification (evaluated by the driver on the implementation's output)

  `eps` is the comparison tolerance on unit-vector components (0 in the theorems over ℝ,
  1e-12 at `Float`), `snap` the property's pole-snapping tolerance. -/

def closeB (T : Ops K) (eps : K) (p q : V3 K) : Bool :=
  leB T (T.abs (p.x - q.x)) eps && leB T (T.abs (p.y - q.y)) eps && leB T (T.abs (p.z - q.z)) eps

/-- `p` (the point a reported lon/lat denotes) and the unit vector `q` are the same direction:
    equal, or `p` is a pole and `q` lies in that pole's snapping cap -/
def sameDirB (T : Ops K) (eps snap : K) (p q : V3 K) : Bool :=
  closeB T eps p q
  || (T.lt (1 - snap) q.z && closeB T eps p ⟨0, 0, 1⟩)
  || (T.lt (1 - snap) (-q.z) && closeB T eps p ⟨0, 0, -1⟩)

/-- longitude in [-180, 180], latitude in [-90, 90] -/
def rangeB (T : Ops K) (p : Deg K × Deg K) : Bool :=
  leB T (-180) p.1.val && leB T p.1.val 180 && leB T (-90) p.2.val && leB T p.2.val 90

/-- a reported (lon, lat) denotes the direction `t` -/
def llAgreesB (T : Ops K) (eps snap : K) (p : Deg K × Deg K) (t : V3 K) : Bool :=
  sameDirB T eps snap (dirDeg T p) t

/-- a reported (x, y, z) has the direction `t` -/
def xyzAgreesB (T : Ops K) (eps : K) (v t : V3 K) : Bool :=
  T.lt 0 (normSq v) && closeB T eps (normalizeV T v) t

def unitLenB (T : Ops K) (eps : K) (v : V3 K) : Bool := leB T (T.abs (normSq v - 1)) eps

def all₂ {α β : Type} (f : α → β → Bool) : List α → List β → Bool
  | [], [] => true
  | a :: as, b :: bs => f a b && all₂ f as bs
  | _, _ => false

end generic

end UxVerif.Coords
