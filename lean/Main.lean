/-
  Line-protocol driver: one request per input line, one answer per output line.
  Imports only the import-free `Model`/`Driver` modules (no Mathlib), so it can be built as a
  native executable (`lake build uxdriver`) or run with `lake env lean --run Main.lean`.
-/
import UxVerif.Driver.C02

open UxVerif

def dispatch (cmd : String) (args : List Int) : Option String :=
  if cmd.startsWith "C02." then Driver.C02.handle cmd args
  else none

def parseInts (toks : List String) : Option (List Int) := toks.mapM String.toInt?

def answer (line : String) : String :=
  match (line.splitOn " ").filter (· ≠ "") with
  | [] => "bad-op empty"
  | cmd :: rest =>
    match parseInts rest with
    | none => "bad-op parse"
    | some args =>
      match dispatch cmd args with
      | some out => out
      | none => "bad-op " ++ cmd

partial def loop (h : IO.FS.Stream) (out : IO.FS.Stream) : IO Unit := do
  let line ← h.getLine
  if line.isEmpty then return ()
  let l := line.trimAscii.toString
  out.putStrLn (answer l)
  out.flush
  loop h out

def main : IO Unit := do loop (← IO.getStdin) (← IO.getStdout)
