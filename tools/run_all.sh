#!/bin/bash
# run_all.sh [tier] [seed] [ids...] — run claimed checks (4 at a time) and print the verdict lines
cd "$(dirname "$0")/.."
tier=${1:-quick}; seed=${2:-0}; shift 2 2>/dev/null
ids="$@"; [ -z "$ids" ] && ids=$(python3 -c "import json;print(' '.join(c['property_id'] for c in json.load(open('MANIFEST.json'))['checks']))")
mkdir -p /tmp/runall_$$
echo $ids | tr ' ' '\n' | xargs -P 4 -I{} sh -c "VERIF_SEED=$seed ./check {} --tier $tier > /tmp/runall_$$/{}.log 2>&1; echo \"{} exit=\$?\" >> /tmp/runall_$$/{}.log"
for i in $ids; do grep -h "VIOLATION\|^\[$i\]\|exit=\|infrastructure" /tmp/runall_$$/$i.log | cut -c1-220; done
