#!/usr/bin/env python3
"""Validate MANIFEST.json and every evidence file against the schemas in /root/.vp (run with python3-vt)."""
import json, glob, sys
import jsonschema
ok = True
ms = json.load(open('/root/.vp/MANIFEST.schema.json')); es = json.load(open('/root/.vp/EVIDENCE.schema.json'))
try:
    jsonschema.validate(json.load(open('MANIFEST.json')), ms); print("MANIFEST ok")
except Exception as e:
    ok = False; print("MANIFEST INVALID:", str(e)[:400])
m = json.load(open('MANIFEST.json'))
for c in m['checks']:
    f = c['evidence_file']
    try:
        e = json.load(open(f)); jsonschema.validate(e, es)
        cov = e['coverage']
        assert cov['obligations'] == cov['discharged'] > 0, "obligations != discharged"
        print(f, "ok", e['tier'], cov['discharged'], cov['evaluations'], cov['distinct_nontrivial'])
    except Exception as ex:
        ok = False; print(f, "INVALID:", str(ex)[:300])
sys.exit(0 if ok else 1)
