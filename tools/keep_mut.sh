#!/bin/bash
# keep_mut.sh <ID> <tag> <needs> <ran> <caught-by>  — store a confirmed seeded change and drop its worktree
id=$1; tag=$2; d=/verif/seeded/${id}${tag}; mkdir -p $d
cp /tmp/mut/${id}${tag}.diff $d/patch.diff
cp /tmp/mut/demo_$(echo $id | tr A-Z a-z)${tag}.py $d/demo.py
base=$(git -C /tmp/wt_$(echo $id | tr A-Z a-z)${tag} rev-parse --short HEAD)
python3 - "$id" "$3" "$4" "$5" "$base" > $d/meta.json <<'PY'
import json,sys
print(json.dumps(dict(breaks_property=sys.argv[1], needs_to_manifest=sys.argv[2], what_was_run=sys.argv[3], caught_by=sys.argv[4], repo_commit_the_patch_applies_to=sys.argv[5]),indent=1))
PY
git -C /repo worktree remove --force /tmp/wt_$(echo $id | tr A-Z a-z)${tag}
ls $d
