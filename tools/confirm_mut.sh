#!/bin/bash
# confirm_mut.sh <worktree> <demo.py>   — confirm a seeded change: demo passes on /repo, fails on the
# worktree, and the pinned 177 tests still pass in the worktree.
wt=$1; demo=$2
echo "== demo on unchanged /repo"; (cd /repo && PYTHONPATH=/repo /venv/bin/python $demo >/tmp/cm_a_$$.log 2>&1; echo "exit=$?"; tail -2 /tmp/cm_a_$$.log)
echo "== demo on changed tree $wt"; (cd $wt && PYTHONPATH=$wt /venv/bin/python $demo >/tmp/cm_b_$$.log 2>&1; echo "exit=$?"; tail -2 /tmp/cm_b_$$.log)
echo "== pinned suite on changed tree"
x=/tmp/cm_junit_$$.xml
(cd $wt && /venv/bin/python -m pytest -q -p no:cacheprovider --timeout=900 --continue-on-collection-errors --junitxml=$x >/tmp/cm_t_$$.log 2>&1; tail -1 /tmp/cm_t_$$.log)
/venv/bin/python - $x <<'PY'
import sys, json, xml.etree.ElementTree as ET
base=set(json.load(open('/root/.vp/BASELINE.json'))['stable_pass'])
ok=set()
for tc in ET.parse(sys.argv[1]).getroot().iter('testcase'):
    if not any(c.tag in('failure','error','skipped') for c in tc):
        ok.add(tc.get('classname')+'::'+tc.get('name'))
miss=sorted(base-ok)
print("baseline tests now failing:", miss if miss else "none")
PY
rm -f $x; (cd $wt && git status --short | grep -v '^ M\|demo_' | head)
