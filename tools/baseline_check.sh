#!/bin/bash
# baseline_check.sh [dir]  — run the pinned suite in dir (default /repo) and list baseline tests that no longer pass
d=${1:-/repo}; x=/tmp/bc_junit_$$.xml
(cd $d && /venv/bin/python -m pytest -q -p no:cacheprovider --timeout=900 --continue-on-collection-errors --junitxml=$x >/tmp/bc_$$.log 2>&1; tail -1 /tmp/bc_$$.log)
/venv/bin/python - $x <<'PY'
import sys, json, xml.etree.ElementTree as ET
base=set(json.load(open('/root/.vp/BASELINE.json'))['stable_pass'])
ok=set()
for tc in ET.parse(sys.argv[1]).getroot().iter('testcase'):
    if not any(c.tag in('failure','error','skipped') for c in tc):
        ok.add(tc.get('classname')+'::'+tc.get('name'))
miss=sorted(base-ok)
print("baseline tests now failing:", miss if miss else "none", "| newly passing:", len(ok-base))
PY
rm -f $x /tmp/bc_$$.log $d/grid_geoflow.exo $d/test/grid_geoflow.exo
