#!/usr/bin/env python3
"""Re-run every kept seeded change against the CURRENT checks.

For each seeded/<ID><tag>/patch.diff: make a scratch worktree of /repo (HEAD; if the patch does not apply
there because later fix commits moved the code, the commit recorded in meta.json), apply the patch, run
`VERIF_REPO=<worktree> ./check <ID> --tier quick --skip-lean` and record the exit code and the first
signatures reported.  Writes seeded/REGRESSION.md.  A patch that only applies to an old commit is run there
and flagged `old-base` (the old tree may also lack later repairs, so its exit 1 is weaker evidence).

usage: tools/seeded_regress.py [-j N] [ids...]
"""
import json, os, subprocess, sys, glob, re, concurrent.futures as cf

V = "/verif"
args = sys.argv[1:]
J = 4
if args[:1] == ["-j"]:
    J = int(args[1]); args = args[2:]


def sh(cmd, **kw):
    return subprocess.run(cmd, shell=True, capture_output=True, text=True, **kw)


def one(d):
    name = os.path.basename(d)
    pid = name[:3]
    meta = json.load(open(f"{d}/meta.json"))
    wt = f"/tmp/reg_{name.lower()}"
    sh(f"git -C /repo worktree remove --force {wt}")
    base = "HEAD"
    sh(f"git -C /repo worktree add -q --detach {wt} HEAD")
    r = sh(f"git -C {wt} apply {d}/patch.diff") if not meta.get("regress_on_recorded_commit") else None
    if r is None or r.returncode != 0:
        r = sh(f"cd {wt} && patch -p1 -s --fuzz=3 < {d}/patch.diff") if r is not None else r
        if r is None or r.returncode != 0:
            sh(f"git -C /repo worktree remove --force {wt}")
            base = meta.get("repo_commit_the_patch_applies_to", "HEAD")
            sh(f"git -C /repo worktree add -q --detach {wt} {base}")
            r = sh(f"git -C {wt} apply {d}/patch.diff")
            if r.returncode != 0:
                sh(f"git -C /repo worktree remove --force {wt}")
                return name, "patch-does-not-apply", base, ""
            base = "old-base:" + base
    env = dict(os.environ, VERIF_REPO=wt)
    r = subprocess.run(f"cd {V} && ./check {pid} --tier quick --skip-lean", shell=True, capture_output=True, text=True, env=env)
    out = r.stdout + r.stderr
    nviol = len(set(re.findall(r"VIOLATION property=\S+ replay=(\S+)", out)))
    sigs = []
    for rp in sorted(set(re.findall(r"VIOLATION property=\S+ replay=(\S+)", out)))[:2]:
        try:
            sigs.append(json.load(open(f"{V}/{rp}")).get("signature", "?"))
        except Exception:
            pass
    sh(f"git -C /repo worktree remove --force {wt}")
    return name, f"exit={r.returncode} violations={nviol}", base, "; ".join(sigs)


dirs = sorted(glob.glob(f"{V}/seeded/C*"))
if args:
    dirs = [d for d in dirs if os.path.basename(d) in args or os.path.basename(d)[:3] in args]
# one property at a time per worker would be safest for replay-file names: group by property
by = {}
for d in dirs:
    by.setdefault(os.path.basename(d)[:3], []).append(d)


def group(ds):
    return [one(d) for d in ds]


rows = []
with cf.ThreadPoolExecutor(J) as ex:
    for res in ex.map(group, by.values()):
        rows += res
        for r in res:
            print(*r, sep=" | ", flush=True)
# merge with the rows of an earlier run when only some ids were requested
old = {}
try:
    for line in open(f"{V}/seeded/REGRESSION.md"):
        c = [x.strip() for x in line.strip().strip("|").split("|")]
        if len(c) == 4 and re.match(r"C\d\d[a-z]$", c[0]):
            old[c[0]] = tuple(c)
except FileNotFoundError:
    pass
for r in rows:
    old[r[0]] = tuple(r)
if args:
    rows = list(old.values())
rows.sort()
head = sh("git -C /repo rev-parse --short HEAD").stdout.strip()
vh = sh(f"git -C {V} rev-parse --short HEAD").stdout.strip()
with open(f"{V}/seeded/REGRESSION.md", "w") as f:
    f.write(f"# Seeded changes re-run against the current checks\n\n/repo HEAD {head}, /verif {vh} (+ working tree); "
            "`VERIF_REPO=<scratch worktree with the patch> ./check <ID> --tier quick --skip-lean`, seed 0. "
            "Expected: exit=1 for every row.\n\n| seeded | result | applied to | first signatures |\n|---|---|---|---|\n")
    for r in rows:
        f.write("| " + " | ".join(r) + " |\n")
bad = [r for r in rows if not r[1].startswith("exit=1")]
print("NOT CAUGHT / NOT RUN:", bad if bad else "none")
