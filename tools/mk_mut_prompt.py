import json, sys, subprocess
pid, tag = sys.argv[1], sys.argv[2]   # e.g. C02 a
wt = f"/tmp/wt_{pid.lower()}{tag}"
subprocess.run(["git","-C","/repo","worktree","add","-q","--detach",wt,"HEAD"],check=False)
p = [json.loads(l) for l in open('/verif/properties.jsonl')]
p = [x for x in p if x['id']==pid][0]
txt = json.dumps({k:p[k] for k in ('id','title','statement','quantifier','why_tests_cant','anchors')}, indent=1)
extra = sys.argv[3] if len(sys.argv)>3 else ""
open(f"/tmp/mut/{pid}{tag}.md","w").write(f"""You are helping to evaluate verification tooling for the Python library UXARRAY/uxarray. Your job: produce ONE realistic code change ("seeded defect") to uxarray that BREAKS the semantic property below while the library still imports and the repository's existing test suite still passes, plus a small demonstration program that fails with your change and passes without it.

Work ONLY inside your own scratch git worktree of the repository: {wt}  (a detached checkout of the current source). Do not touch /repo, do not look at or use anything under /verif, do not commit anything anywhere.

The property:
{txt}

Requirements for the change
- It must be the kind of slip a maintainer could plausibly make in a refactor/optimisation/bug-fix (not sabotage guarded by a magic constant), confined to a few lines in the anchored code (or two cooperating sites that each look fine alone).
- It must need something SPECIFIC to manifest: an unusual but valid input (e.g. a particular padding layout, mixed face sizes in a particular order, a face sharing several edges, an isolated face, a particular numbering), or a multi-step sequence of operations, or two cooperating sites — NOT something that ordinary use on the sample files would expose at once. {extra}
- The existing pinned test suite must still pass with the change: run it in the worktree with
    cd {wt} && /venv/bin/python -m pytest -q -p no:cacheprovider --timeout=900 --continue-on-collection-errors -x -q test/<relevant files>
  and finally the whole suite once:  cd {wt} && /venv/bin/python -m pytest -q -p no:cacheprovider --timeout=900 --continue-on-collection-errors 2>&1 | tail -5
  NOTE: in this sandbox 90 tests ALWAYS fail for environmental reasons (installed xarray rejects Dataset(Dataset), so everything using ux.open_dataset/UxDataset fails; some sample files are empty). The baseline on the unchanged tree is exactly "90 failed, 177 passed". Your change must keep exactly the same 177 passing (compare the list of failures before/after: `... -rf | grep FAILED | sort`). Make sure python imports uxarray from your worktree (running pytest from the worktree root does that; verify with `cd {wt} && /venv/bin/python -c "import uxarray; print(uxarray.__file__)"`). `import uxarray` takes ~8 s; numba JIT can add ~40 s.
- Write the demonstration as {wt}/demo_{pid.lower()}{tag}.py: a stand-alone script (uses only the public API named under observe_at where possible; build grids in memory with `ux.Grid.from_topology(node_lon=…, node_lat=…, face_node_connectivity=…, fill_value=…)` or `ux.open_grid(<face vertex list / xr.Dataset / sample file under test/meshfiles>)`; do NOT use ux.open_dataset/UxDataset — construct `ux.UxDataArray(data, dims=[…], uxgrid=grid)` directly if you need data) that exits 0 on the unchanged source and exits 1 (printing what is wrong) with your change. Run it both ways (do NOT use `git stash`: the stash is shared between all worktrees of the repository and other agents work in parallel; use `git diff > /tmp/mut/{pid}{tag}.diff; git checkout -- uxarray; …; git apply`), and show the outputs.
- Save the final change as a unified diff made with `git -C {wt} diff -- uxarray > /tmp/mut/{pid}{tag}.diff` (paths relative to the repo root, so that `git apply` works in another checkout) and copy the demo to /tmp/mut/demo_{pid.lower()}{tag}.py. Leave the worktree with the change applied.

Final message: (1) the diff, (2) one paragraph on why it breaks the property and exactly what is needed for it to manifest, (3) the test-suite result lines before/after, (4) the demo outputs with and without the change.
""")
print(wt)
